#!/bin/bash
# Builds the overlay venv used by every check (offline; wheelhouse only).
# /venv (the repository's own environment) is left untouched: the overlay sees its
# site-packages and /repo through a .pth file and adds crosshair-tool + z3-solver.
set -euo pipefail
cd "$(dirname "$0")"
V=.venv
if [ -x "$V/bin/python" ] && "$V/bin/python" -c 'import crosshair, z3, pyanalyze' 2>/dev/null; then
  echo "setup: overlay venv already usable"
  exit 0
fi
rm -rf "$V"
/venv/bin/python -m venv "$V"
SP=$("$V/bin/python" -c 'import sysconfig; print(sysconfig.get_paths()["purelib"])')
printf '%s\n%s\n' "/venv/lib/python3.12/site-packages" "/repo" > "$SP/verif_overlay.pth"
PIP_NO_INDEX=1 "$V/bin/pip" install -q --no-index --find-links /opt/veriftools/wheels crosshair-tool z3-solver
"$V/bin/python" -c 'import crosshair, z3, pyanalyze; print("setup: ok crosshair", crosshair.__version__, "z3", z3.get_version_string(), "pyanalyze from", pyanalyze.__file__)'
