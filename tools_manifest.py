#!/usr/bin/env python3
"""Regenerates MANIFEST.json from the table below (keeps it valid at every commit)."""
import json, os

HERE = os.path.dirname(os.path.abspath(__file__))

CLAIMED = {
    # id: (design section, level text, level note, technique)
}
NA = {}

def load():
    import importlib.util
    spec = importlib.util.spec_from_file_location("manifest_table", os.path.join(HERE, "manifest_table.py"))
    m = importlib.util.module_from_spec(spec)
    spec.loader.exec_module(m)
    return m

def main():
    t = load()
    checks = []
    for pid in sorted(t.CLAIMED):
        c = t.CLAIMED[pid]
        checks.append({
            "property_id": pid,
            "quick_cmd": f"./check {pid} --tier quick",
            "thorough_cmd": f"./check {pid} --tier thorough",
            "evidence_file": f"/verif/evidence/{pid}.json",
            "replay_cmd_template": f"./check {pid} --replay {{path}}",
            "engine": c.get("engine", "xh"),
            "level_claimed": {"category": "model_checking", "text": c["text"], "design_ref": c["design_ref"]},
            "level_note": c["note"],
            "technique": c["technique"],
        })
    man = {
        "version": 1,
        "setup_cmd": "./setup.sh",
        "hooks": {
            "guard": "PYANALYZE_VERIF",
            "enable": "no source hooks are needed: harnesses import the unmodified modules from /repo's working tree and call existing functions; the guard name is reserved and unused",
            "baseline_off_cmd": "cd /repo && /venv/bin/python -m pytest -ra -q -p no:cacheprovider --timeout=900 --continue-on-collection-errors",
            "source_commits": [],
            "add_only": True,
        },
        "engines": t.ENGINES,
        "checks": checks,
        "notes": t.NOTES,
        "not_applicable": [{"property_id": k, "reason": v} for k, v in sorted(t.NA.items())],
    }
    with open(os.path.join(HERE, "MANIFEST.json"), "w") as f:
        json.dump(man, f, indent=1)
    try:
        import jsonschema
        jsonschema.validate(man, json.load(open("/root/.vp/MANIFEST.schema.json")))
        print("MANIFEST.json valid;", len(checks), "checks,", len(t.NA), "not applicable")
    except ImportError:
        print("MANIFEST.json written (jsonschema not importable here)")

if __name__ == "__main__":
    main()
