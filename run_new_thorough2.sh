#!/bin/bash
# second batch: thorough tier of the cases added while triaging the defect-hunting reports
cd /verif
run(){ id=$1; pat=$2; echo "##### $id $pat $(date -u +%T)"; ./check $id --tier thorough --only "$pat" 2>&1 | grep -E "^VIOLATION|^== $id:|counterexample|HARNESS" | cut -c1-260; echo "##### $id exit=${PIPESTATUS[0]}"; }
run C15 '^bd:'
run C05 '^unk:'
run C08 '\*args|\*\*kw|^star:'
run C14 'fn|cbl'
run C20 'pin:|feat'
run C06 '^dup:|dflt->'
run C17 '^map:'
run C16 '.'
run C18 'reject'
run C02 'flag|typeobj|instr|:PR'
run C11 'CS'
run C03 'dict_a2|baretuple|flag|typeobj|clsstr'
