#!/bin/bash
# thorough tier of the cases added in the fourth round only (the full thorough tiers are run by run_thorough_all.sh)
cd /verif
run(){ id=$1; pat=$2; echo "##### $id $pat $(date -u +%T)"; ./check $id --tier thorough --only "$pat" 2>&1 | grep -E "^VIOLATION|^== $id:|counterexample|HARNESS|KNOWN" | cut -c1-260; echo "##### $id exit=${PIPESTATUS[0]}"; }
run C04 'proto:'
run C15 '^bd:'
run C11 '^(CP|MP)'
run C01 ':unk'
run C08 'u012'
run C12 'big10|ulist|udict|uset'
run C14 'td[ab][ab]'
run C20 'nest'
run C16 'afterblank|blankfirst|twoblocks'
run C02 'rev|via|len:(!=|<=|>)'
run C06 '^k:'
run C03 'fsub|isub|cplx'
run C04 'minlen\[\$p[01],(t|l|d)'
run C07 '^sh:[^,]*<-[^,]*$'
