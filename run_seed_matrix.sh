#!/bin/bash
# usage: ./run_seed_matrix.sh [--fast] [property ids...]   (default: all properties, full quick checks)
# Runs every seeded change against the quick check of the property it breaks (through scratch worktrees, /repo is
# left alone) and prints one line per seed.  Expected: exit 1 (VIOLATION) except for the seeds whose meta.json says
# "not caught" / "void" (filters.json: null).  --fast restricts each run to the cases recorded as catching the seed
# (seeded/filters.json).  NOTE: rewrites evidence/<id>.json with results from the seeded trees - regenerate the
# evidence (run_quick_all.sh) afterwards.
cd /verif
fast=0; if [ "$1" = "--fast" ]; then fast=1; shift; fi
ids="$*"
for d in /verif/seeded/*/; do
  n=$(basename $d); id=${n%%_*}
  if [ -n "$ids" ] && ! echo " $ids " | grep -q " $id "; then continue; fi
  extra=()
  if [ $fast = 1 ]; then
    pat=$(python3 -c "import json,sys; v=json.load(open('/verif/seeded/filters.json')).get('$n'); print('' if v is None else v)")
    if [ -z "$pat" ]; then echo "$n skipped (recorded as not caught / void)"; continue; fi
    extra=(--only "$pat")
  fi
  out=$(./seedtest_wt.sh $d/patch.diff $id --tier quick "${extra[@]}" 2>&1 | tail -1)
  nv=$(grep -c "^VIOLATION" /tmp/seedtest_wt.$id.log 2>/dev/null)
  nc=$(grep -c "counterexample" /tmp/seedtest_wt.$id.log 2>/dev/null)
  he=$(grep -c "^HARNESS-ERROR" /tmp/seedtest_wt.$id.log 2>/dev/null)
  tot=$(grep -E "^== $id: " /tmp/seedtest_wt.$id.log | grep -o "conditions=[0-9]*")
  echo "$n $out $tot violations=$nv counterexamples=$nc harness_errors=$he $(date -u +%T)"
done
