#!/bin/bash
# Runs every seeded change against the quick check of the property it breaks (through scratch worktrees,
# /repo is left alone) and prints one line per seed.  Expected: exit 1 (VIOLATION) except for the seeds whose
# meta.json says "not caught" / "void".
for d in /verif/seeded/*/; do
  n=$(basename $d); id=${n%%_*}
  out=$(./seedtest_wt.sh $d/patch.diff $id --tier quick 2>&1 | tail -1)
  nv=$(grep -c VIOLATION /tmp/seedtest_wt.$id.log 2>/dev/null)
  echo "$n $out violations=$nv"
done
