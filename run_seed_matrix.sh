#!/bin/bash
# usage: ./run_seed_matrix.sh [property ids...]   (default: all)
# Runs every seeded change against the quick check of the property it breaks (through scratch worktrees, /repo is
# left alone) and prints one line per seed.  Expected: exit 1 (VIOLATION) except for the seeds whose meta.json says
# "not caught" / "void".  NOTE: rewrites evidence/<id>.json with results from the seeded trees - regenerate the
# evidence (run_quick_all.sh) afterwards.
cd /verif
ids="$*"
for d in /verif/seeded/*/; do
  n=$(basename $d); id=${n%%_*}
  if [ -n "$ids" ] && ! echo " $ids " | grep -q " $id "; then continue; fi
  out=$(./seedtest_wt.sh $d/patch.diff $id --tier quick 2>&1 | tail -1)
  nv=$(grep -c "^VIOLATION" /tmp/seedtest_wt.$id.log 2>/dev/null)
  nc=$(grep -c "counterexample" /tmp/seedtest_wt.$id.log 2>/dev/null)
  he=$(grep -c "^HARNESS-ERROR" /tmp/seedtest_wt.$id.log 2>/dev/null)
  echo "$n $out violations=$nv counterexamples=$nc harness_errors=$he $(date -u +%T)"
done
