"""C02 defect 2: truthiness narrowing treats protocol / ABC / non-final class
types as "always true" because the class object itself has no __bool__/__len__,
although objects of the type (instances of implementing or derived classes)
can be falsy.  `if not x` on Optional[Iterable[int]] is narrowed to None and
`if x:` is reported as always true.
"""
import ast
import contextlib
import io
import os
import sys

sys.path.insert(0, os.getcwd())

import pyanalyze  # noqa: E402
from pyanalyze.ast_annotator import annotate_code  # noqa: E402


def narrowed_values(code):
    """Run pyanalyze (unmodified) on `code`; return {marker: Value} for every
    expression statement `<name>  # marker`.  The inferred value of that bare
    name is exactly what reveal_type(<name>) prints at that point."""
    buf = io.StringIO()
    with contextlib.redirect_stdout(buf), contextlib.redirect_stderr(buf):
        tree = annotate_code(code)
    lines = code.splitlines()
    out = {}
    for node in ast.walk(tree):
        if isinstance(node, ast.Expr) and isinstance(node.value, ast.Name):
            line = lines[node.lineno - 1]
            if "#" in line:
                out[line.split("#", 1)[1].strip()] = node.value.inferred_value
    return out, buf.getvalue()


def header(title):
    print("=" * 78)
    print(title)
    print("pyanalyze imported from:", pyanalyze.__file__)
    print("=" * 78)


from pyanalyze.boolability import get_boolability  # noqa: E402
from pyanalyze.value import KnownValue, MultiValuedValue, NO_RETURN_VALUE, TypedValue, flatten_values  # noqa: E402

CODE = '''
from typing import Hashable, Iterable, Optional, Protocol, SupportsInt

class Shape(Protocol):
    def area(self) -> int: ...

class Base:
    pass

class Empty(Base):
    def __len__(self) -> int:
        return 0

def f(a: Optional[Iterable[int]], b: Optional[Hashable], c: Optional[SupportsInt],
      d: Optional[Shape], e: Optional[Base]):
    if not a:
        a  # Optional[Iterable[int]] / not a
    if not b:
        b  # Optional[Hashable] / not b
    if not c:
        c  # Optional[SupportsInt] / not c
    if not d:
        d  # Optional[Shape] / not d
    if not e:
        e  # Optional[Base] / not e

def g(a: Iterable[int]):
    if a:
        return
    a  # Iterable[int] / after `if a: return`
'''

header("Defect 2: `if not x` drops every falsy object of a protocol/ABC/base-class type")
vals, diagnostics = narrowed_values(CODE)

class Empty:  # runtime stand-ins
    def __len__(self):
        return 0
    def area(self):
        return 0

witness = {
    "Optional[Iterable[int]] / not a": [],          # an empty list is an Iterable[int]
    "Optional[Hashable] / not b": 0,                # 0 is Hashable
    "Optional[SupportsInt] / not c": 0,             # 0 supports __int__
    "Optional[Shape] / not d": Empty(),             # implements the protocol, len()==0
    "Optional[Base] / not e": "Empty() (subclass of Base with __len__ -> 0)",
    "Iterable[int] / after `if a: return`": [],
}
bad = []
for marker, value in vals.items():
    parts = list(flatten_values(value))
    only_none = value is NO_RETURN_VALUE or all(
        isinstance(p, KnownValue) and p.val is None for p in parts
    )
    w = witness[marker]
    print(f"  {marker:40} pyanalyze: {str(value):8} falsy witness of the declared type: {w!r}")
    if only_none:
        bad.append(marker)

always_true = [l for l in diagnostics.splitlines() if "always True" in l]
print()
print("diagnostics containing an 'always True' verdict:")
for l in always_true:
    print("  ", l.strip())
import collections.abc
print()
print("get_boolability(TypedValue(collections.abc.Iterable)) =", get_boolability(TypedValue(collections.abc.Iterable)))
print("bool([]) =", bool([]), "; isinstance([], collections.abc.Iterable) =", isinstance([], collections.abc.Iterable))
print()
print("property requires: a falsy object of the declared type that reaches the `not x` branch")
print("                   is still in the narrowed type, and an 'always True' verdict holds for every object of the type.")
if bad:
    print(f"VIOLATION reproduced in {len(bad)} branches: narrowed type admits only None/Never: {bad}")
    sys.exit(1)
print("no violation")
sys.exit(0)
