"""C02 defect 1: `x in "abc"` narrows a str to the *characters* of the literal.

For a str/bytes right operand, `in` is substring containment, not element
membership.  InPredicate iterates the container and narrows to its elements.
"""
import ast
import contextlib
import io
import os
import sys

sys.path.insert(0, os.getcwd())

import pyanalyze  # noqa: E402
from pyanalyze.ast_annotator import annotate_code  # noqa: E402


def narrowed_values(code):
    """Run pyanalyze (unmodified) on `code`; return {marker: Value} for every
    expression statement `<name>  # marker`.  The inferred value of that bare
    name is exactly what reveal_type(<name>) prints at that point."""
    buf = io.StringIO()
    with contextlib.redirect_stdout(buf), contextlib.redirect_stderr(buf):
        tree = annotate_code(code)
    lines = code.splitlines()
    out = {}
    for node in ast.walk(tree):
        if isinstance(node, ast.Expr) and isinstance(node.value, ast.Name):
            line = lines[node.lineno - 1]
            if "#" in line:
                out[line.split("#", 1)[1].strip()] = node.value.inferred_value
    return out, buf.getvalue()


def header(title):
    print("=" * 78)
    print(title)
    print("pyanalyze imported from:", pyanalyze.__file__)
    print("=" * 78)


from pyanalyze.value import KnownValue, NO_RETURN_VALUE, flatten_values  # noqa: E402

CODE = '''
def f(x: str, y: bytes):
    if x in "abc":
        x  # str_pos
        if x == "ab":
            x  # str_pos_eq_ab
    if y in b"abc":
        y  # bytes_pos
'''

header('Defect 1: `x in "abc"` (substring test) narrows x: str to Literal["a","b","c"]')
vals, _ = narrowed_values(CODE)
for k, v in vals.items():
    print(f"  pyanalyze type at {k}: {v}")

witnesses = ["ab", "bc", "abc", ""]
print()
print("runtime witnesses (all are str, all satisfy `w in 'abc'`):")
lost = []
members = [v.val for v in flatten_values(vals["str_pos"]) if isinstance(v, KnownValue)]
only_literals = all(isinstance(v, KnownValue) for v in flatten_values(vals["str_pos"]))
for w in witnesses:
    assert isinstance(w, str) and (w in "abc")
    inside = (not only_literals) or w in members
    print(f"  {w!r:6} in 'abc' -> True ; contained in narrowed type: {inside}")
    if not inside:
        lost.append(w)

bytes_never = vals["bytes_pos"] is NO_RETURN_VALUE
print()
print(f"bytes case: b'ab' in b'abc' is {b'ab' in b'abc'} at run time; pyanalyze type of y in that branch: {vals['bytes_pos']}")
print()
print("property requires: every str o with (o in 'abc') == True stays in the narrowed type")
print("                   (so the type must still admit 'ab', 'abc', ''), and the bytes branch is reachable.")
if lost or bytes_never or vals["str_pos_eq_ab"] is NO_RETURN_VALUE:
    print(f"VIOLATION reproduced: lost objects {lost!r}; x == 'ab' inside the branch is typed {vals['str_pos_eq_ab']}; bytes branch typed {vals['bytes_pos']}")
    sys.exit(1)
print("no violation")
sys.exit(0)
