"""C02 defect 4: `not issubclass(x, (A, B))` with x: type is narrowed to Never.

With a single class the else-branch keeps `type`; with a tuple of classes the
special case for the bare `type` value in is_universally_assignable is missed
and the whole value is discarded.
"""
import ast
import contextlib
import io
import os
import sys

sys.path.insert(0, os.getcwd())

import pyanalyze  # noqa: E402
from pyanalyze.ast_annotator import annotate_code  # noqa: E402


def narrowed_values(code):
    """Run pyanalyze (unmodified) on `code`; return {marker: Value} for every
    expression statement `<name>  # marker`.  The inferred value of that bare
    name is exactly what reveal_type(<name>) prints at that point."""
    buf = io.StringIO()
    with contextlib.redirect_stdout(buf), contextlib.redirect_stderr(buf):
        tree = annotate_code(code)
    lines = code.splitlines()
    out = {}
    for node in ast.walk(tree):
        if isinstance(node, ast.Expr) and isinstance(node.value, ast.Name):
            line = lines[node.lineno - 1]
            if "#" in line:
                out[line.split("#", 1)[1].strip()] = node.value.inferred_value
    return out, buf.getvalue()


def header(title):
    print("=" * 78)
    print(title)
    print("pyanalyze imported from:", pyanalyze.__file__)
    print("=" * 78)


from pyanalyze.value import NO_RETURN_VALUE  # noqa: E402

CODE = '''
def f(x: type, y: type):
    if issubclass(x, int):
        pass
    else:
        x  # else of issubclass(x, int)
    if issubclass(y, (int, str)):
        pass
    else:
        y  # else of issubclass(y, (int, str))
    return None

def g(cls: type) -> str:
    if issubclass(cls, (int, str)):
        return "scalar"
    cls  # g: after early return
    return "other"
'''

header("Defect 4: else-branch of issubclass(x, (int, str)) for x: type is Never")
vals, diagnostics = narrowed_values(CODE)
bad = []
for marker, value in vals.items():
    print(f"  {marker:40} pyanalyze: {value}")
    if value is NO_RETURN_VALUE and "(x, int)" not in marker:
        bad.append(marker)
print()
print("runtime witness: float is a `type`, issubclass(float, (int, str)) =", issubclass(float, (int, str)))
print("property requires: the class `float` (a member of `type`) stays in the narrowed type of the")
print("                   negative branch, exactly as it does for the single-class call.")
if bad:
    print(f"VIOLATION reproduced: narrowed to Never at {bad}")
    sys.exit(1)
print("no violation")
sys.exit(0)
