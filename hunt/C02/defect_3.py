"""C02 defect 3: the negative branch of ==, is, in and `case` on an enum.Flag
value is narrowed to "all the other declared members", but a Flag type also
contains combinations (F.A | F.B) and the zero flag F(0), which are not declared
members.
"""
import ast
import contextlib
import io
import os
import sys

sys.path.insert(0, os.getcwd())

import pyanalyze  # noqa: E402
from pyanalyze.ast_annotator import annotate_code  # noqa: E402


def narrowed_values(code):
    """Run pyanalyze (unmodified) on `code`; return {marker: Value} for every
    expression statement `<name>  # marker`.  The inferred value of that bare
    name is exactly what reveal_type(<name>) prints at that point."""
    buf = io.StringIO()
    with contextlib.redirect_stdout(buf), contextlib.redirect_stderr(buf):
        tree = annotate_code(code)
    lines = code.splitlines()
    out = {}
    for node in ast.walk(tree):
        if isinstance(node, ast.Expr) and isinstance(node.value, ast.Name):
            line = lines[node.lineno - 1]
            if "#" in line:
                out[line.split("#", 1)[1].strip()] = node.value.inferred_value
    return out, buf.getvalue()


def header(title):
    print("=" * 78)
    print(title)
    print("pyanalyze imported from:", pyanalyze.__file__)
    print("=" * 78)


import enum  # noqa: E402
from pyanalyze.value import KnownValue, NO_RETURN_VALUE, TypedValue, flatten_values  # noqa: E402

CODE = '''
import enum

class Perm(enum.Flag):
    R = 1
    W = 2

def f(x: Perm):
    if x != Perm.R:
        x  # x != Perm.R
    if x is not Perm.R:
        x  # x is not Perm.R
    if x not in (Perm.R,):
        x  # x not in (Perm.R,)
    if x == Perm.R:
        pass
    else:
        x  # else of x == Perm.R
    match x:
        case Perm.R:
            pass
        case _:
            x  # match fallthrough after case Perm.R
'''

header("Defect 3: `x != Flag.MEMBER` narrows a Flag to the remaining *named* members")
vals, _ = narrowed_values(CODE)


class Perm(enum.Flag):  # same definition, for the runtime side
    R = 1
    W = 2


witnesses = [Perm.R | Perm.W, Perm(0)]
for w in witnesses:
    assert isinstance(w, Perm) and w != Perm.R and w is not Perm.R and w not in (Perm.R,)

bad = []
for marker, value in vals.items():
    parts = list(flatten_values(value))
    literal_only = value is NO_RETURN_VALUE or all(isinstance(p, KnownValue) for p in parts)
    print(f"  {marker:40} pyanalyze: {value}")
    if literal_only:
        # compare by integer flag value: the analysed module has its own copy of Perm
        admitted = [p.val.value for p in parts if isinstance(p, KnownValue)]
        lost = [repr(w) for w in witnesses if w.value not in admitted]
        if lost:
            bad.append((marker, lost))
print()
print("runtime: Perm.R | Perm.W =", repr(Perm.R | Perm.W), "and Perm(0) =", repr(Perm(0)),
      "are instances of Perm, and both are != Perm.R")
print("property requires: they stay in the narrowed type of every branch above (the type must remain Perm).")
if bad:
    for marker, lost in bad:
        print(f"VIOLATION reproduced at [{marker}]: lost {lost}")
    sys.exit(1)
print("no violation")
sys.exit(0)
