"""C06 defect 2: a constrained TypeVar (e.g. AnyStr) that occurs in a callback's
parameter position cannot be solved: every callback whose parameter is wider than
the constraints (object, Sized, float, ...) is rejected, although the callback is a
perfectly good Callable[[str], ...] and all arguments belong to the declared types.

Run as:  cd /tmp/hunt/C06 && /venv/bin/python /tmp/hunt/out/C06/defect_2.py
"""

import contextlib
import io
import os
import sys
import textwrap

sys.path.insert(0, os.getcwd())

from pyanalyze.test_name_check_visitor import TestNameCheckVisitorBase  # noqa: E402

CODE = textwrap.dedent(
    """
    from typing import AnyStr, Callable, TypeVar

    TC = TypeVar("TC", int, str)

    def apply(cb: Callable[[AnyStr], object], s: AnyStr) -> AnyStr:
        cb(s)
        return s

    def h(cb: Callable[[TC], None], x: TC) -> TC:
        cb(x)
        return x

    def takes_object(x: object) -> None:
        pass

    def takes_float(x: float) -> None:
        pass

    def takes_str(x: str) -> None:
        pass

    def capybara():
        apply(len, "abc")        # CALL_1
        apply(repr, b"abc")      # CALL_2
        h(takes_object, 1)       # CALL_3
        h(takes_float, True)     # CALL_4
        h(takes_str, "a")        # CALL_5 (control: accepted)
        h(takes_str, 1)          # CALL_6 (control: must be rejected)
    """
)

# expected "diagnosed" per the property: only CALL_6 has an argument outside the
# declared parameter types (for TC=int the callback must accept int; takes_str does not).
EXPECTED = {
    "CALL_1": False,
    "CALL_2": False,
    "CALL_3": False,
    "CALL_4": False,
    "CALL_5": False,
    "CALL_6": True,
}


def line_of(marker: str) -> int:
    for i, line in enumerate(CODE.splitlines(), start=1):
        if marker in line:
            return i
    raise AssertionError(marker)


def run_pyanalyze() -> list:
    buf = io.StringIO()
    with contextlib.redirect_stdout(buf), contextlib.redirect_stderr(buf):
        return TestNameCheckVisitorBase()._run_str(CODE, fail_after_first=False)


def main() -> int:
    ns: dict = {}
    exec(CODE, ns)
    print("runtime: apply(len, 'abc') ->", repr(ns["apply"](len, "abc")))
    print("runtime: apply(repr, b'abc') ->", repr(ns["apply"](repr, b"abc")))
    print("runtime: h(takes_object, 1) ->", repr(ns["h"](ns["takes_object"], 1)))
    print("runtime: h(takes_float, True) ->", repr(ns["h"](ns["takes_float"], True)))
    print()

    errors = run_pyanalyze()
    by_line: dict = {}
    for e in errors:
        by_line.setdefault(e["lineno"], []).append(
            f"[{e['code'].name}] {e['description']}"
        )
    violated = False
    lines = CODE.splitlines()
    for marker, expected in EXPECTED.items():
        ln = line_of(marker)
        diags = by_line.get(ln, [])
        diagnosed = bool(diags)
        status = "ok" if diagnosed == expected else "VIOLATION"
        if diagnosed != expected:
            violated = True
        print(f"{lines[ln - 1].strip()}")
        print(f"    pyanalyze: {diags if diags else 'no diagnostic'}")
        print(f"    property requires diagnosed={expected}  -> {status}")
    if violated:
        print(
            "\nVIOLATION: calls are diagnosed with incompatible_argument although "
            "every argument belongs to the declared parameter type (AnyStr=str / "
            "TC=int makes both arguments acceptable) and the calls execute fine."
        )
        return 1
    print("no violation")
    return 0


if __name__ == "__main__":
    sys.exit(main())
