"""C06 defect 3: a parameter whose declared type is a tuple with an unpacked
variadic part (PEP 646: Tuple[int, Unpack[Tuple[str, ...]]], also as *args type)
rejects every concrete tuple argument, including the ones that belong to the type.

Run as:  cd /tmp/hunt/C06 && /venv/bin/python /tmp/hunt/out/C06/defect_3.py
"""

import contextlib
import io
import os
import sys
import textwrap

sys.path.insert(0, os.getcwd())

from pyanalyze.test_name_check_visitor import TestNameCheckVisitorBase  # noqa: E402

CODE = textwrap.dedent(
    """
    from typing import Tuple
    from typing_extensions import Unpack

    def p(x: Tuple[int, Unpack[Tuple[str, ...]]]) -> int:
        return x[0]

    def q(*args: Unpack[Tuple[int, Unpack[Tuple[str, ...]]]]) -> int:
        return args[0]

    def capybara():
        p((2,))             # CALL_1  int followed by zero strs
        p((2, "a"))         # CALL_2  int followed by one str
        p((2, "a", "b"))    # CALL_3  int followed by two strs
        q(2)                # CALL_4
        q(2, "a")           # CALL_5
        q(2, "a", "b")      # CALL_6
        p((2, 3))           # CALL_7  control: 3 is not a str
        q(2, 3)             # CALL_8  control: 3 is not a str
        p(("a",))           # CALL_9  control: "a" is not an int
    """
)

EXPECTED = {
    "CALL_1": False,
    "CALL_2": False,
    "CALL_3": False,
    "CALL_4": False,
    "CALL_5": False,
    "CALL_6": False,
    "CALL_7": True,
    "CALL_8": True,
    "CALL_9": True,
}


def member(t: tuple) -> bool:
    """Ground-truth membership in tuple[int, *tuple[str, ...]]."""
    return (
        len(t) >= 1
        and isinstance(t[0], int)
        and all(isinstance(e, str) for e in t[1:])
    )


def line_of(marker: str) -> int:
    for i, line in enumerate(CODE.splitlines(), start=1):
        if marker in line:
            return i
    raise AssertionError(marker)


def run_pyanalyze() -> list:
    buf = io.StringIO()
    with contextlib.redirect_stdout(buf), contextlib.redirect_stderr(buf):
        return TestNameCheckVisitorBase()._run_str(CODE, fail_after_first=False)


def main() -> int:
    for t in [(2,), (2, "a"), (2, "a", "b"), (2, 3), ("a",)]:
        print(f"ground truth: {t!r} in tuple[int, *tuple[str, ...]] = {member(t)}")
    print()
    errors = run_pyanalyze()
    by_line: dict = {}
    for e in errors:
        by_line.setdefault(e["lineno"], []).append(
            f"[{e['code'].name}] {e['description']}"
        )
    violated = False
    lines = CODE.splitlines()
    for marker, expected in EXPECTED.items():
        ln = line_of(marker)
        diags = by_line.get(ln, [])
        diagnosed = bool(diags)
        if diagnosed != expected:
            violated = True
        print(lines[ln - 1].strip())
        print(f"    pyanalyze: {diags if diags else 'no diagnostic'}")
        print(
            f"    property requires diagnosed={expected}  -> "
            f"{'ok' if diagnosed == expected else 'VIOLATION'}"
        )
    if violated:
        print(
            "\nVIOLATION: arguments that belong to the declared parameter type are "
            "diagnosed as incompatible_argument."
        )
        return 1
    print("no violation")
    return 0


if __name__ == "__main__":
    sys.exit(main())
