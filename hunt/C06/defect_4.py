"""C06 defect 4: an explicitly passed argument is not checked against the parameter's
declared type when its inferred Value happens to be the *same object* as the Value
recorded for the parameter's default (signature.py uses `composite.value is
param.default` to recognise "the default was used").  For functions whose signature
is built from the AST (nested functions), passing the variable that was also used as
the default expression silences incompatible_argument.

Run as:  cd /tmp/hunt/C06 && /venv/bin/python /tmp/hunt/out/C06/defect_4.py
"""

import contextlib
import io
import os
import sys
import textwrap

sys.path.insert(0, os.getcwd())

from pyanalyze.test_name_check_visitor import TestNameCheckVisitorBase  # noqa: E402

CODE = textwrap.dedent(
    """
    def capybara():
        name = "a"
        nothing = None

        def f(x: int = name) -> int:  # static analysis: ignore[incompatible_default]
            return x

        def g(x: int = nothing) -> int:  # static analysis: ignore[incompatible_default]
            return x

        f(name)      # CALL_1  explicit argument "a" for x: int
        f("a")       # CALL_2  the same value written as a literal
        g(nothing)   # CALL_3  explicit argument None for x: int
        g(None)      # CALL_4  the same value written as a literal
        other = "a"
        f(other)     # CALL_5  the same value through another variable
    """
)

# All five calls pass an explicit argument that is not an int.
EXPECTED = {f"CALL_{i}": True for i in range(1, 6)}


def line_of(marker: str) -> int:
    for i, line in enumerate(CODE.splitlines(), start=1):
        if marker in line:
            return i
    raise AssertionError(marker)


def run_pyanalyze() -> list:
    buf = io.StringIO()
    with contextlib.redirect_stdout(buf), contextlib.redirect_stderr(buf):
        return TestNameCheckVisitorBase()._run_str(CODE, fail_after_first=False)


def main() -> int:
    print('ground truth: "a" is not an int; None is not an int -> every call below')
    print("passes an explicit argument outside the declared parameter type int.\n")
    errors = run_pyanalyze()
    by_line: dict = {}
    for e in errors:
        by_line.setdefault(e["lineno"], []).append(
            f"[{e['code'].name}] {e['description']}"
        )
    violated = False
    lines = CODE.splitlines()
    for marker, expected in EXPECTED.items():
        ln = line_of(marker)
        diags = [d for d in by_line.get(ln, []) if "incompatible_argument" in d]
        diagnosed = bool(diags)
        if diagnosed != expected:
            violated = True
        print(lines[ln - 1].strip())
        print(f"    pyanalyze: {diags if diags else 'no diagnostic'}")
        print(
            f"    property requires diagnosed={expected}  -> "
            f"{'ok' if diagnosed == expected else 'VIOLATION'}"
        )
    if violated:
        print(
            "\nVIOLATION: the same argument value is diagnosed when written as a "
            "literal (or via another variable) but not when it is the variable that "
            "also appears as the default expression."
        )
        return 1
    print("no violation")
    return 0


if __name__ == "__main__":
    sys.exit(main())
