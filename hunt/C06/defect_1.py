"""C06 defect 1: a dict display passed as **kwargs resolves duplicate keys with the
wrong precedence (earliest entry wins instead of the latest), so the call is checked
against a value the parameter never receives.

Run as:  cd /tmp/hunt/C06 && /venv/bin/python /tmp/hunt/out/C06/defect_1.py
"""

import contextlib
import io
import os
import sys
import textwrap

sys.path.insert(0, os.getcwd())

from pyanalyze.test_name_check_visitor import TestNameCheckVisitorBase  # noqa: E402

CODE = textwrap.dedent(
    """
    def conf(*, host: str = "h", port: int = 0) -> tuple:
        return (host, port)

    def capybara():
        defaults = {"host": "localhost", "port": 80}
        conf(**{**defaults, "port": "80"})   # LINE_A: port receives "80" (a str)
        conf(**{"port": "80", **defaults})   # LINE_B: port receives 80 (an int)
    """
)


def line_of(marker: str) -> int:
    for i, line in enumerate(CODE.splitlines(), start=1):
        if marker in line:
            return i
    raise AssertionError(marker)


def run_pyanalyze() -> list:
    buf = io.StringIO()
    with contextlib.redirect_stdout(buf), contextlib.redirect_stderr(buf):
        return TestNameCheckVisitorBase()._run_str(CODE, fail_after_first=False)


def main() -> int:
    # Ground truth: execute the two calls.
    ns: dict = {}
    exec(CODE, ns)
    conf = ns["conf"]
    defaults = {"host": "localhost", "port": 80}
    got_a = conf(**{**defaults, "port": "80"})
    got_b = conf(**{"port": "80", **defaults})
    print(f"runtime LINE_A: conf received (host, port) = {got_a!r}")
    print(f"runtime LINE_B: conf received (host, port) = {got_b!r}")
    a_bad = not isinstance(got_a[1], int)  # True: "80" is not an int
    b_bad = not isinstance(got_b[1], int)  # False

    errors = run_pyanalyze()
    by_line: dict = {}
    for e in errors:
        by_line.setdefault(e["lineno"], []).append(
            f"[{e['code'].name}] {e['description']}"
        )
    la, lb = line_of("LINE_A"), line_of("LINE_B")
    print()
    print(f"pyanalyze on LINE_A: {by_line.get(la, 'no diagnostic')}")
    print(f"pyanalyze on LINE_B: {by_line.get(lb, 'no diagnostic')}")
    print()
    print(
        "property requires: LINE_A diagnosed (port='80' is not an int): "
        f"{a_bad}; LINE_B diagnosed: {b_bad}"
    )
    diag_a = any("incompatible_argument" in d for d in by_line.get(la, []))
    diag_b = any("incompatible_argument" in d for d in by_line.get(lb, []))
    violated = (diag_a != a_bad) or (diag_b != b_bad)
    if violated:
        print(
            "VIOLATION: diagnosed(call) <=> exists arg not in declared(param) fails "
            f"(LINE_A diagnosed={diag_a}, expected {a_bad}; LINE_B diagnosed={diag_b},"
            f" expected {b_bad})"
        )
        return 1
    print("no violation")
    return 0


if __name__ == "__main__":
    sys.exit(main())
