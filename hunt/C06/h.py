import os, sys, io, contextlib
sys.path.insert(0, os.getcwd())
from pyanalyze.test_name_check_visitor import TestNameCheckVisitorBase
import textwrap

def run(code):
    code = textwrap.dedent(code)
    t = TestNameCheckVisitorBase()
    buf = io.StringIO()
    with contextlib.redirect_stdout(buf), contextlib.redirect_stderr(buf):
        errs = t._run_str(code, fail_after_first=False)
    out = []
    for e in errs:
        msg = e["message"].strip().splitlines()
        # first line is description
        out.append((e["lineno"], e["code"].name, e["description"] if "description" in e else msg[0]))
    return out

if __name__ == "__main__":
    src = open(sys.argv[1]).read()
    lines = src.splitlines()
    for ln, code, d in run(src):
        print(f"{ln:3d} [{code}] {d}\n      | {lines[ln-1].strip()}")
