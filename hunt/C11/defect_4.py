"""C11 defect 4: the ignore machinery looks for the text `# static analysis: ignore`
anywhere in the physical line, not in a comment token.  A string literal that merely
contains that text (a) suppresses every diagnostic on its line (or, as a line of a
multi-line string, on the next line), and (b) when there is nothing to suppress is
reported as an unused / bare ignore comment although the file has no ignore comment.

Run as: cd /tmp/hunt/C11 && /venv/bin/python /tmp/hunt/out/C11/defect_4.py
"""
import contextlib
import io
import os
import sys
import tokenize

sys.path.insert(0, os.getcwd())

import pyanalyze  # noqa: E402
from pyanalyze.error_code import ErrorCode  # noqa: E402
from pyanalyze.test_name_check_visitor import TestNameCheckVisitorBase  # noqa: E402

print("pyanalyze from", pyanalyze.__file__)
T = TestNameCheckVisitorBase()
SETTINGS = {ErrorCode.unused_ignore: True}


def diagnostics(code):
    err = io.StringIO()
    with contextlib.redirect_stderr(err):
        failures = T._run_str(code, fail_after_first=False, settings=SETTINGS)
    return sorted((f.get("lineno"), f["code"].name) for f in failures)


def n_comments(code):
    return sum(
        t.type == tokenize.COMMENT
        for t in tokenize.generate_tokens(io.StringIO(code).readline)
    )


A0 = 'def f():\n    return undefined_q + "some text"\n'
A1 = 'def f():\n    return undefined_q + "# static analysis: ignore"\n'
B0 = 'def f():\n    x = """\n    some text\n    """; y = undefined_q\n    return x, y\n'
B1 = 'def f():\n    x = """\n    # static analysis: ignore\n    """; y = undefined_q\n    return x, y\n'
C1 = 'def f():\n    return "# static analysis: ignore[undefined_name]"\n'

res = {}
for name, code in [("A0", A0), ("A1", A1), ("B0", B0), ("B1", B1), ("C1", C1)]:
    res[name] = diagnostics(code)
    print(f"--- {name}: comment tokens in program = {n_comments(code)}")
    print(code, end="")
    print("  diagnostics:", res[name])

print()
print("None of these programs contains a comment, so the property requires")
print("D(A1) == D(A0), D(B1) == D(B0) and D(C1) == [].")
bad = res["A1"] != res["A0"] or res["B1"] != res["B0"] or res["C1"] != []
print("VIOLATION" if bad else "ok")
sys.exit(1 if bad else 0)
