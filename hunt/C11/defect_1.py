"""C11 defect 1: an ignore comment that DOES suppress a diagnostic is nevertheless
reported as unused_ignore, when the suppressed diagnostic is one that pyanalyze
emits after the per-file visit (attribute_is_never_set from ClassAttributeChecker,
suggested_parameter_type from CallableTracker.check / perform_final_checks).

Run as: cd /tmp/hunt/C11 && /venv/bin/python /tmp/hunt/out/C11/defect_1.py
"""
import contextlib
import io
import os
import sys

sys.path.insert(0, os.getcwd())

import pyanalyze  # noqa: E402
from pyanalyze.error_code import ErrorCode  # noqa: E402
from pyanalyze.test_name_check_visitor import TestNameCheckVisitorBase  # noqa: E402

print("pyanalyze from", pyanalyze.__file__)
T = TestNameCheckVisitorBase()


def diagnostics(code, settings):
    err = io.StringIO()
    with contextlib.redirect_stderr(err):
        failures = T._run_str(code, fail_after_first=False, settings=settings)
    return sorted((f.get("lineno"), f["code"].name) for f in failures)


def scenario(title, template, code_name, line, settings):
    print("=" * 70)
    print(title)
    base = diagnostics(template.format(c=""), settings)
    comment = f"  # static analysis: ignore[{code_name}]"
    with_comment = diagnostics(template.format(c=comment), settings)
    print("  D(P)            =", base)
    print("  D(P + comment)  =", with_comment)
    targeted = [d for d in base if d == (line, code_name)]
    required = [d for d in base if d not in targeted]
    print("  required        =", required, "(comment suppressed", targeted, "so it is NOT unused)")
    suppressed = bool(targeted) and (line, code_name) not in with_comment
    flagged_unused = (line, "unused_ignore") in with_comment
    bad = suppressed and flagged_unused
    print("  comment suppressed the diagnostic:", suppressed)
    print("  comment reported as unused_ignore:", flagged_unused)
    print("  VIOLATION" if bad else "  ok")
    return bad


ATTR = """
class A:
    def f(self):
        return self.nope{c}
"""

PARAM = """
def f(
    x,{c}
):
    return x

def g():
    f(1)
"""

bad1 = scenario(
    "attribute_is_never_set (ClassAttributeChecker, runs after the visit)",
    ATTR,
    "attribute_is_never_set",
    4,
    {ErrorCode.unused_ignore: True},
)
bad2 = scenario(
    "suggested_parameter_type (CallableTracker.check in perform_final_checks)",
    PARAM,
    "suggested_parameter_type",
    3,
    {ErrorCode.unused_ignore: True, ErrorCode.suggested_parameter_type: True},
)
print("=" * 70)
print(
    "Property C11: an ignore comment is reported as unused exactly when it\n"
    "suppressed nothing.  Here the comment both suppresses its target and is\n"
    "reported as unused (and --autofix would delete it, bringing the error back)."
)
sys.exit(1 if (bad1 or bad2) else 0)
