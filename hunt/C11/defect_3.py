"""C11 defect 3: a leading bare file-level `# static analysis: ignore` comment that
suppresses nothing is never reported as unused_ignore (it suppresses the report
about itself), while the coded file-level form and every line-level form are.

Run as: cd /tmp/hunt/C11 && /venv/bin/python /tmp/hunt/out/C11/defect_3.py
"""
import contextlib
import io
import os
import sys

sys.path.insert(0, os.getcwd())

import pyanalyze  # noqa: E402
from pyanalyze.error_code import ErrorCode  # noqa: E402
from pyanalyze.test_name_check_visitor import TestNameCheckVisitorBase  # noqa: E402

print("pyanalyze from", pyanalyze.__file__)
T = TestNameCheckVisitorBase()
SETTINGS = {ErrorCode.unused_ignore: True}


def diagnostics(code):
    err = io.StringIO()
    with contextlib.redirect_stderr(err):
        failures = T._run_str(code, fail_after_first=False, settings=SETTINGS)
    return sorted((f.get("lineno"), f["code"].name) for f in failures)


CLEAN = "def f():\n    return 1\n"
progs = {
    "no comment": CLEAN,
    "bare file-level": "# static analysis: ignore\n" + CLEAN,
    "coded file-level": "# static analysis: ignore[undefined_name]\n" + CLEAN,
    "bare own-line (line 2)": "import os\n# static analysis: ignore\n" + CLEAN,
}
res = {}
for name, code in progs.items():
    res[name] = diagnostics(code)
    print(f"{name:24s} -> {res[name]}")

print()
print("The program has no diagnostics at all, so each of the three comments suppresses")
print("nothing; the property requires unused_ignore on the comment's line in all three")
print("cases.  Required for 'bare file-level': [(1, 'unused_ignore')]")
bad = (
    res["no comment"] == []
    and (1, "unused_ignore") in res["coded file-level"]
    and (2, "unused_ignore") in res["bare own-line (line 2)"]
    and (1, "unused_ignore") not in res["bare file-level"]
)
print("VIOLATION" if bad else "ok")
sys.exit(1 if bad else 0)
