"""C11 defect 2: in a file that starts with a UTF-8 byte order mark, a leading
file-level `# static analysis: ignore` comment (line 1) is not recognised: nothing
is suppressed and the comment is reported as unused.  The own-line form on line 1
(targeting line 2) is not recognised either.

Run as: cd /tmp/hunt/C11 && /venv/bin/python /tmp/hunt/out/C11/defect_2.py
"""
import contextlib
import io
import os
import sys
import tempfile

sys.path.insert(0, os.getcwd())

import pyanalyze  # noqa: E402
from pyanalyze.error_code import ErrorCode  # noqa: E402
from pyanalyze.name_check_visitor import NameCheckVisitor  # noqa: E402

print("pyanalyze from", pyanalyze.__file__)

BODY = "# static analysis: ignore\ndef g():\n    return undefined_q\n"
BODY_CODED = (
    "# static analysis: ignore[undefined_name]\ndef g(): return undefined_q\n"
)


def check(path):
    kwargs = NameCheckVisitor.prepare_constructor_kwargs(
        {"settings": {ErrorCode.unused_ignore: True}}
    )
    err = io.StringIO()
    with contextlib.redirect_stderr(err), contextlib.redirect_stdout(err):
        failures = NameCheckVisitor._run_on_files([path], **kwargs)
    return sorted((f.get("lineno"), f["code"].name) for f in failures if "code" in f)


results = {}
with tempfile.TemporaryDirectory() as d:
    for name, prefix, body in [
        ("plain_bare", b"", BODY),
        ("bom_bare", b"\xef\xbb\xbf", BODY),
        ("plain_coded", b"", BODY_CODED),
        ("bom_coded", b"\xef\xbb\xbf", BODY_CODED),
    ]:
        path = os.path.join(d, f"c11_{name}.py")
        with open(path, "wb") as f:
            f.write(prefix + body.encode("utf-8"))
        # sanity: Python itself accepts the file and sees line 1 as a comment
        compile(open(path, "rb").read(), path, "exec")
        results[name] = check(path)
        print(f"{name:12s} first bytes {prefix + body.encode()[:10]!r:32} -> {results[name]}")

print()
print("required: the BOM is an encoding marker, not source text; line 1 is a leading")
print("file-level ignore comment, so both BOM files must give [] like the plain files.")
bad = (
    results["plain_bare"] == []
    and results["plain_coded"] == []
    and (results["bom_bare"] != [] or results["bom_coded"] != [])
)
print("VIOLATION" if bad else "ok")
sys.exit(1 if bad else 0)
