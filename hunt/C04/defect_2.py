"""C04 defect 2: recursive protocols are accepted unsoundly (type_object.py:146-167).

(2a) The recursion guard is keyed on the two classes only, so a recursive *generic* protocol
     P[int] accepts a class whose recursive member has the wrong specialization
     (P[str] expected, C[int] provided).
(2b) The positive cache stores verdicts that were reached while a recursion assumption was
     active, even when that assumption is refuted afterwards; P2 <- C2 is rejected when checked
     alone but accepted once P1 <- C1 has been checked (and rejected!) anywhere in the module.

Run as:  cd /tmp/hunt/C04 && /venv/bin/python /tmp/hunt/out/C04/defect_2.py
Exit status 1 = violation reproduced, 0 = not reproduced.
"""

import contextlib
import io
import os
import sys

sys.path.insert(0, os.getcwd())

import pyanalyze
from pyanalyze.test_name_check_visitor import TestNameCheckVisitorBase

print("pyanalyze imported from", pyanalyze.__file__)


def diagnostics(code):
    buf = io.StringIO()
    with contextlib.redirect_stdout(buf), contextlib.redirect_stderr(buf):
        errors = TestNameCheckVisitorBase()._run_str(code, fail_after_first=False)
    return [(e["lineno"], e["code"].name) for e in errors]


def line_of(code, marker):
    return next(
        i for i, l in enumerate(code.splitlines(), 1) if l.rstrip().endswith(marker)
    )


CODE = '''
from typing import Generic, Protocol, TypeVar

T = TypeVar("T")

class P(Protocol[T]):
    def get(self) -> T:
        raise NotImplementedError
    def child(self) -> "P[str]":
        raise NotImplementedError

class C(Generic[T]):
    def __init__(self, x: T) -> None:
        self.x = x
    def get(self) -> T:
        return self.x
    def child(self) -> "C[int]":
        return C(1)

class E:
    def get(self) -> int:
        return 1
    def child(self) -> "E":
        return self

class D(Generic[T]):
    """Like C, but the recursive member goes through a different class."""
    def __init__(self, x: T) -> None:
        self.x = x
    def get(self) -> T:
        return self.x
    def child(self) -> E:
        return E()

def want(p: P[int]) -> str:
    return p.child().get()

def f(c: C[int], d: D[int], cs: C[str]) -> None:
    want(c)    # MARK-c
    want(d)    # MARK-d
    want(cs)   # MARK-cs
'''

diags = diagnostics(CODE)
print("checker diagnostics (line, code):", diags)
c_flagged = any(d[0] == line_of(CODE, "MARK-c") for d in diags)
d_flagged = any(d[0] == line_of(CODE, "MARK-d") for d in diags)
cs_flagged = any(d[0] == line_of(CODE, "MARK-cs") for d in diags)
print(f"pyanalyze: want(c)  with c: C[int]  flagged={c_flagged}")
print(f"pyanalyze: want(d)  with d: D[int]  flagged={d_flagged}   (control, same shape via class E)")
print(f"pyanalyze: want(cs) with cs: C[str] flagged={cs_flagged}   (control)")

# The witness object: C(5) belongs to C[int]; is it a P[int]?
ns = {}
exec(compile(CODE, "<witness>", "exec"), ns)
o = ns["C"](5)
result = ns["want"](o)
print(
    f"runtime  : o = C(5) is a C[int]; o.child().get() = {result!r} of type"
    f" {type(result).__name__}, but P[int].child() promises P[str], i.e. get() -> str"
)
print(
    "required : o does not belong to P[int] (o.child() is a C[int], which is not a P[str]),"
    " so P[int] must reject C[int] exactly as it rejects D[int]"
)

violations = []
if (not c_flagged) and d_flagged and not isinstance(result, str):
    violations.append("2a: P[int] accepts C[int]")

# ------------------------------------------------------------------ part 2b
print()
print("--- part 2b: verdict cached under a refuted assumption")
CODE_B = '''
from typing import Protocol, Tuple

class P1(Protocol):
    def step(self) -> Tuple["P2", int]:
        raise NotImplementedError

class P2(Protocol):
    def back(self) -> P1:
        raise NotImplementedError

class C1:
    def step(self) -> Tuple["C2", str]:     # str, not int: C1 is not a P1
        return (C2(), "oops")

class C2:
    def back(self) -> C1:                   # hence C2 is not a P2
        return C1()

def want1(p: P1) -> None:
    pass

def want2(p: P2) -> int:
    return p.back().step()[1]

def f(c1: C1, c2: C2) -> None:
    want2(c2)   # MARK-want2
    %s
'''
alone = diagnostics(CODE_B % "pass")
together = diagnostics(CODE_B % "want1(c1)   # MARK-want1")
l2 = line_of(CODE_B, "MARK-want2")
alone_flagged = any(d[0] == l2 for d in alone)
together_flagged = any(d[0] == l2 for d in together)
want1_flagged = any(d[0] == l2 + 1 for d in together)
print("checker diagnostics, want2(c2) alone            :", alone)
print("checker diagnostics, want2(c2) and then want1(c1):", together)
print(f"pyanalyze: want2(c2) flagged when alone={alone_flagged}, when want1(c1) is also checked={together_flagged}")
print(f"pyanalyze: want1(c1) flagged={want1_flagged}  (so pyanalyze itself says C1 is not a P1)")
ns = {}
exec(compile(CODE_B % "pass", "<witness>", "exec"), ns)
r = ns["want2"](ns["C2"]())
print(f"runtime  : want2(C2()) returns {r!r} ({type(r).__name__}) although it is declared -> int")
print(
    "required : C2().back() is a C1, which is not a P1, so C2() does not belong to P2; the verdict"
    " must not depend on which other checks ran before"
)
if alone_flagged and not together_flagged and not isinstance(r, int):
    violations.append("2b: P2 accepts C2 after P1 <- C1 was checked")

if violations:
    print("VIOLATION reproduced:", violations)
    sys.exit(1)
print("not reproduced")
sys.exit(0)
