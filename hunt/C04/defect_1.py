"""C04 defect 1: a closed / extra_items TypedDict accepts a TypedDict that declares further keys.

Run as:  cd /tmp/hunt/C04 && /venv/bin/python /tmp/hunt/out/C04/defect_1.py
Exit status 1 = violation reproduced, 0 = not reproduced.
"""

import ast
import contextlib
import io
import os
import sys

sys.path.insert(0, os.getcwd())

import pyanalyze
from pyanalyze.checker import Checker
from pyanalyze.name_check_visitor import NameCheckVisitor
from pyanalyze.test_name_check_visitor import TestNameCheckVisitorBase
from pyanalyze.value import (
    NO_RETURN_VALUE,
    KnownValue,
    TypedDictEntry,
    TypedDictValue,
    TypedValue,
)

print("pyanalyze imported from", pyanalyze.__file__)
CTX = NameCheckVisitor("", "", ast.parse(""), checker=Checker())


def accepts(left, right) -> bool:
    return isinstance(left.can_assign(right, CTX), dict)


def diagnostics(code):
    buf = io.StringIO()
    with contextlib.redirect_stdout(buf), contextlib.redirect_stderr(buf):
        errors = TestNameCheckVisitorBase()._run_str(code, fail_after_first=False)
    return [(e["lineno"], e["code"].name) for e in errors]


def line_of(code, marker):
    return next(i for i, l in enumerate(code.splitlines(), 1) if l.rstrip().endswith(marker))


violations = []

# ---------------------------------------------------------------- value level
INT, STR = TypedValue(int), TypedValue(str)
o = {"a": 1, "b": "x"}  # the witness object
cases = {
    "closed=True": (
        TypedDictValue({"a": TypedDictEntry(INT)}, extra_keys=NO_RETURN_VALUE),
        TypedDictValue(
            {"a": TypedDictEntry(INT), "b": TypedDictEntry(STR)},
            extra_keys=NO_RETURN_VALUE,
        ),
    ),
    "extra_items=int": (
        TypedDictValue({"a": TypedDictEntry(INT)}, extra_keys=INT),
        TypedDictValue(
            {"a": TypedDictEntry(INT), "b": TypedDictEntry(STR)}, extra_keys=INT
        ),
    ),
}
for name, (A, B) in cases.items():
    a_accepts_b = accepts(A, B)
    o_in_b = accepts(B, KnownValue(o))
    o_in_a = accepts(A, KnownValue(o))
    print(f"[{name}]")
    print(f"  A = {A}")
    print(f"  B = {B}")
    print(f"  pyanalyze: A accepts B            -> {a_accepts_b}")
    print(f"  pyanalyze: B accepts Literal[{o}] -> {o_in_b}")
    print(f"  pyanalyze: A accepts Literal[{o}] -> {o_in_a}")
    print(
        "  required : o belongs to B and not to A (key 'b' is not allowed / is not an"
        " int), so A must reject B"
    )
    if a_accepts_b and o_in_b and not o_in_a:
        violations.append(name)

# -------------------------------------------------------------- checker level
CODE = '''
from typing_extensions import TypedDict

class A(TypedDict, closed=True):
    a: int

class B(TypedDict, closed=True):
    a: int
    b: str

class AX(TypedDict, extra_items=int):
    a: int

class BX(TypedDict, extra_items=int):
    a: int
    b: str

def want_a(x: A) -> None: ...
def want_ax(x: AX) -> None: ...

def f(b: B, bx: BX) -> None:
    want_a(b)                       # MARK-closed
    want_a({"a": 1, "b": "x"})      # MARK-closed-literal
    want_ax(bx)                     # MARK-extra
    want_ax({"a": 1, "b": "x"})     # MARK-extra-literal
'''
diags = diagnostics(CODE)
print("checker diagnostics (line, code):", diags)
for tag in ("closed", "extra"):
    decl_line = line_of(CODE, f"MARK-{tag}")
    lit_line = line_of(CODE, f"MARK-{tag}-literal")
    decl_flagged = any(d[0] == decl_line for d in diags)
    lit_flagged = any(d[0] == lit_line for d in diags)
    print(
        f"  {tag}: passing the declared TypedDict flagged={decl_flagged};"
        f" passing the literal dict with the same keys flagged={lit_flagged}"
        " (required: both flagged)"
    )
    if lit_flagged and not decl_flagged:
        violations.append(f"checker-{tag}")

if violations:
    print("VIOLATION reproduced:", violations)
    sys.exit(1)
print("not reproduced")
sys.exit(0)
