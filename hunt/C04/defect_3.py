"""C04 defect 3: type[A] accepts every value whose type is A's metaclass M, although most
instances of M (e.g. another class B built with the same metaclass) are not subclasses of A.

Run as:  cd /tmp/hunt/C04 && /venv/bin/python /tmp/hunt/out/C04/defect_3.py
Exit status 1 = violation reproduced, 0 = not reproduced.
"""

import ast
import contextlib
import enum
import io
import os
import sys

sys.path.insert(0, os.getcwd())

import pyanalyze
from pyanalyze.checker import Checker
from pyanalyze.name_check_visitor import NameCheckVisitor
from pyanalyze.test_name_check_visitor import TestNameCheckVisitorBase
from pyanalyze.value import KnownValue, SubclassValue, TypedValue

print("pyanalyze imported from", pyanalyze.__file__)
CTX = NameCheckVisitor("", "", ast.parse(""), checker=Checker())


def accepts(left, right) -> bool:
    return isinstance(left.can_assign(right, CTX), dict)


def diagnostics(code):
    buf = io.StringIO()
    with contextlib.redirect_stdout(buf), contextlib.redirect_stderr(buf):
        errors = TestNameCheckVisitorBase()._run_str(code, fail_after_first=False)
    return [(e["lineno"], e["code"].name) for e in errors]


def line_of(code, marker):
    return next(
        i for i, l in enumerate(code.splitlines(), 1) if l.rstrip().endswith(marker)
    )


violations = []


# ---------------------------------------------------------------- value level
class M(type):
    pass


class A(metaclass=M):
    pass


class B(metaclass=M):
    pass


class Color(enum.Enum):
    RED = 1


class Shape(enum.Enum):
    SQUARE = 1


for name, (cls_a, meta, cls_b) in {
    "user metaclass": (A, M, B),
    "enum": (Color, enum.EnumMeta, Shape),
}.items():
    type_a = SubclassValue(TypedValue(cls_a))  # type[A]
    meta_val = TypedValue(meta)  # M
    a_accepts_meta = accepts(type_a, meta_val)
    o_in_meta = accepts(meta_val, KnownValue(cls_b))
    o_in_type_a = accepts(type_a, KnownValue(cls_b))
    print(f"[{name}] A = {type_a}, B = {meta_val}, witness o = class {cls_b.__name__}")
    print(f"  pyanalyze: A accepts B          -> {a_accepts_meta}")
    print(f"  pyanalyze: B accepts Literal[o] -> {o_in_meta}")
    print(f"  pyanalyze: A accepts Literal[o] -> {o_in_type_a}")
    print(
        f"  runtime  : isinstance(o, {meta.__name__}) = {isinstance(cls_b, meta)},"
        f" issubclass(o, {cls_a.__name__}) = {issubclass(cls_b, cls_a)}"
    )
    print("  required : o belongs to B but not to A, so A must reject B")
    if a_accepts_meta and o_in_meta and not o_in_type_a and not issubclass(cls_b, cls_a):
        violations.append(name)

# -------------------------------------------------------------- checker level
CODE = '''
class M(type):
    pass

class A(metaclass=M):
    def hello(self) -> str:
        return "hi"

class B(metaclass=M):
    pass

def want(cls: type[A]) -> str:
    return cls().hello()

def f(m: M, b: type[B]) -> None:
    want(m)   # MARK-m
    want(b)   # MARK-b
'''
diags = diagnostics(CODE)
print("checker diagnostics (line, code):", diags)
m_flagged = any(d[0] == line_of(CODE, "MARK-m") for d in diags)
b_flagged = any(d[0] == line_of(CODE, "MARK-b") for d in diags)
print(f"pyanalyze: want(m) with m: M       flagged={m_flagged}  (required: flagged)")
print(f"pyanalyze: want(b) with b: type[B] flagged={b_flagged}  (control)")
ns = {}
exec(compile(CODE, "<witness>", "exec"), ns)
try:
    ns["want"](ns["B"])  # B is a perfectly good value of type M
    crashed = False
except AttributeError as e:
    crashed = True
    print("runtime  : f(B, ...) -> want(B) raises", repr(e))
if b_flagged and not m_flagged and crashed:
    violations.append("checker")

if violations:
    print("VIOLATION reproduced:", violations)
    sys.exit(1)
print("not reproduced")
sys.exit(0)
