"""C04 defect 4: a literal (KnownValue) is accepted by any runtime-checkable protocol as soon as
runtime isinstance() says yes, even though the structural check has just failed: isinstance()
only looks for attribute *names*, ignoring member types, generic arguments and whether the
attribute is found on a class object instead of an instance.

Run as:  cd /tmp/hunt/C04 && /venv/bin/python /tmp/hunt/out/C04/defect_4.py
Exit status 1 = violation reproduced, 0 = not reproduced.
"""

import ast
import contextlib
import io
import os
import sys
import typing

sys.path.insert(0, os.getcwd())

import pyanalyze
from pyanalyze.annotations import type_from_runtime
from pyanalyze.checker import Checker
from pyanalyze.name_check_visitor import NameCheckVisitor
from pyanalyze.test_name_check_visitor import TestNameCheckVisitorBase
from pyanalyze.value import KnownValue, TypedValue

print("pyanalyze imported from", pyanalyze.__file__)
CTX = NameCheckVisitor("", "", ast.parse(""), checker=Checker())


def accepts(left, right) -> bool:
    return isinstance(left.can_assign(right, CTX), dict)


def diagnostics(code):
    buf = io.StringIO()
    with contextlib.redirect_stdout(buf), contextlib.redirect_stderr(buf):
        errors = TestNameCheckVisitorBase()._run_str(code, fail_after_first=False)
    return [(e["lineno"], e["code"].name) for e in errors]


def line_of(code, marker):
    return next(
        i for i, l in enumerate(code.splitlines(), 1) if l.rstrip().endswith(marker)
    )


violations = []

# ---------------------------------------------------------------- value level
abs_str = type_from_runtime(typing.SupportsAbs[str])  # abs(x) must be a str
supports_int = type_from_runtime(typing.SupportsInt)
rows = [
    # (A, literal B, the enclosing non-literal type, why o is not in A)
    (abs_str, KnownValue(1), TypedValue(int), "abs(1) == 1 is an int, not a str"),
    (abs_str, KnownValue(-1.5), TypedValue(float), "abs(-1.5) == 1.5 is a float, not a str"),
    (supports_int, KnownValue(int), None, "int(int) raises TypeError: the class object has no bound __int__"),
]
for A, B, wider, why in rows:
    got = accepts(A, B)
    print(f"A = {A}\n  B = {B}")
    print(f"  pyanalyze: A accepts B -> {got}")
    if wider is not None:
        print(f"  pyanalyze: A accepts {wider} -> {accepts(A, wider)}   (the type the literal belongs to)")
    print(f"  required : reject, because {why}")
    if got:
        violations.append(f"{A} <- {B}")

# -------------------------------------------------------------- checker level
CODE = '''
from typing import SupportsAbs, SupportsInt

def want_abs(x: SupportsAbs[str]) -> str:
    return abs(x)

def want_int(x: SupportsInt) -> int:
    return int(x)

def f(i: int) -> None:
    want_abs(-1)    # MARK-lit
    want_abs(i)     # MARK-int
    want_int(int)   # MARK-cls
'''
diags = diagnostics(CODE)
print("checker diagnostics (line, code):", diags)
lit_flagged = any(d[0] == line_of(CODE, "MARK-lit") for d in diags)
int_flagged = any(d[0] == line_of(CODE, "MARK-int") for d in diags)
cls_flagged = any(d[0] == line_of(CODE, "MARK-cls") for d in diags)
print(f"pyanalyze: want_abs(-1)  flagged={lit_flagged}  (required: flagged)")
print(f"pyanalyze: want_abs(i)   flagged={int_flagged}  (control: i: int is rejected)")
print(f"pyanalyze: want_int(int) flagged={cls_flagged}  (required: flagged)")
ns = {}
exec(compile(CODE, "<witness>", "exec"), ns)
r = ns["want_abs"](-1)
print(f"runtime  : want_abs(-1) returns {r!r} ({type(r).__name__}) although it is declared -> str")
try:
    ns["want_int"](int)
except TypeError as e:
    print("runtime  : want_int(int) raises", repr(e))
if int_flagged and not lit_flagged and not isinstance(r, str):
    violations.append("checker: want_abs(-1)")
if not cls_flagged:
    violations.append("checker: want_int(int)")

if violations:
    print("VIOLATION reproduced:", violations)
    sys.exit(1)
print("not reproduced")
sys.exit(0)
