"""C17 defect 3: the str.format parser accepts templates that CPython rejects.

Four syntactic rules of CPython's formatter are missing from
format_strings._parse_replacement_field / _parse_children.
"""
import os
import sys

sys.path.insert(0, os.getcwd())
sys.path.insert(1, os.path.dirname(os.path.abspath(__file__)))
from _common import cpython_says, pyanalyze_says  # noqa: E402

CASES = [
    "'{0:{1:{2}}}'.format(1, 2, 3)",  # ValueError: Max string recursion exceeded
    "'{0[0]0}'.format([1])",          # ValueError: Only '.' or '[' may follow ']'
    "'{[0]0}'.format([1])",           # same, auto-numbered
    "'{0[]}'.format([1])",            # ValueError: Empty attribute in format string
    "'{0:{{}'.format(1)",             # ValueError: unmatched '{' in format spec
]
violated = False
for expr in CASES:
    diags, revealed = pyanalyze_says(expr)
    exc, res = cpython_says(expr)
    print(f"input     : {expr}")
    print(f"  CPython  : {'raises ' + exc if exc else 'returns %r' % (res,)}")
    print(f"  pyanalyze: diagnostics={diags}")
    if exc is not None and not diags:
        violated = True
        print("  -> VIOLATION: CPython raises, property requires a format diagnostic")
    print()
print("REPRODUCED" if violated else "not reproduced")
sys.exit(1 if violated else 0)
