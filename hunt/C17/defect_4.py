"""C17 defect 4: a template mixing %(key)x and unkeyed specifiers crashes the checker.

'%s %(a)s' % {'a': 1} is accepted by CPython (-> "{'a': 1} 1").  pyanalyze documents
a stricter lint for the mix ("cannot combine specifiers ..."), but in addition
accept_mapping_args_no_mvv raises TypeError while building its own message
(', '.join over a key set containing None), so the user gets an internal_error and
the expression's inferred type becomes Any[error] instead of str.
"""
import os
import sys

sys.path.insert(0, os.getcwd())
sys.path.insert(1, os.path.dirname(os.path.abspath(__file__)))
from _common import cpython_says, pyanalyze_says  # noqa: E402

CASES = [
    "'%s %(a)s' % {'a': 1}",   # CPython: "{'a': 1} 1"
    "'%r: %(a)d%%' % {'a': 1}",  # CPython: "{'a': 1}: 1%"
    "'%(a)s %s' % {'a': 1}",   # CPython raises here too, shown only for the crash
]
violated = False
for expr in CASES:
    diags, revealed = pyanalyze_says(expr)
    exc, res = cpython_says(expr)
    print(f"input     : {expr}")
    print(f"  CPython  : {'raises ' + exc if exc else 'returns %r (type %s)' % (res, type(res).__name__)}")
    print(f"  pyanalyze: diagnostics={diags}")
    print(f"  pyanalyze: {revealed}")
    internal = [d for d in diags if d[0] == "internal_error"]
    if exc is None and (internal or (revealed is not None and "Any" in revealed)):
        violated = True
        print("  -> VIOLATION: formatting succeeds with a str result; pyanalyze emits an"
              " internal_error (not a documented lint) and infers Any[error], not str")
    print()
print("REPRODUCED" if violated else "not reproduced")
sys.exit(1 if violated else 0)
