"""C17 defect 1: '%%' next to %(key) specifiers is reported as an error.

'%(pct)d%%' % {'pct': 50} evaluates to '50%' under CPython, but pyanalyze reports
"cannot combine specifiers that require a mapping with those that do not".
"""
import os
import sys

sys.path.insert(0, os.getcwd())
sys.path.insert(1, os.path.dirname(os.path.abspath(__file__)))
from _common import cpython_says, pyanalyze_says  # noqa: E402

CASES = [
    "'%(pct)d%%' % {'pct': 50}",
    "'100%% of %(what)s' % {'what': 'it'}",
    "b'%(pct)d%%' % {b'pct': 50}",
]
violated = False
for expr in CASES:
    diags, revealed = pyanalyze_says(expr)
    exc, res = cpython_says(expr)
    print(f"input     : {expr}")
    print(f"  CPython  : {'raises ' + exc if exc else 'returns %r' % (res,)}")
    print(f"  pyanalyze: diagnostics={diags}")
    if exc is None and diags:
        violated = True
        print("  -> VIOLATION: formatting succeeds, property requires no format diagnostic")
    print()
print("REPRODUCED" if violated else "not reproduced")
sys.exit(1 if violated else 0)
