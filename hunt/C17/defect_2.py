"""C17 defect 2: literal dict keys that are not `str` switch off all mapping checks.

For bytes templates the mapping keys CPython looks up are bytes, but pyanalyze
decodes the template's keys to str and only recognises str dict keys; every other
literal key (bytes, int, ...) is put into `non_literals`, which disables both the
"No value specified for keys" check and the per-value conversion checks.
"""
import os
import sys

sys.path.insert(0, os.getcwd())
sys.path.insert(1, os.path.dirname(os.path.abspath(__file__)))
from _common import cpython_says, pyanalyze_says  # noqa: E402

CASES = [
    "b'%(a)s' % {'a': b'x'}",   # CPython: KeyError b'a'
    "b'%(a)d' % {b'a': 'x'}",   # CPython: TypeError (%d needs a number)
    "'%(a)s' % {1: 2}",         # CPython: KeyError 'a'
    "'%(a)d' % {b'a': 1}",      # CPython: KeyError 'a'
]
violated = False
for expr in CASES:
    diags, revealed = pyanalyze_says(expr)
    exc, res = cpython_says(expr)
    print(f"input     : {expr}")
    print(f"  CPython  : {'raises ' + exc if exc else 'returns %r' % (res,)}")
    print(f"  pyanalyze: diagnostics={diags}")
    if exc is not None and not diags:
        violated = True
        print("  -> VIOLATION: CPython raises, property requires a format diagnostic")
    print()
print("REPRODUCED" if violated else "not reproduced")
sys.exit(1 if violated else 0)
