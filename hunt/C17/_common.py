"""Shared helper for the C17 defect scripts (run from inside the worktree)."""
import os
import sys

sys.path.insert(0, os.getcwd())

import pyanalyze  # noqa: E402
from pyanalyze.test_name_check_visitor import TestNameCheckVisitorBase  # noqa: E402


def _quiet(fn):
    """Run fn with fds 1/2 pointed at /dev/null (the visitor prints every error)."""
    sys.stdout.flush()
    sys.stderr.flush()
    saved = os.dup(1), os.dup(2)
    devnull = os.open(os.devnull, os.O_WRONLY)
    try:
        os.dup2(devnull, 1)
        os.dup2(devnull, 2)
        return fn()
    finally:
        sys.stdout.flush()
        sys.stderr.flush()
        os.dup2(saved[0], 1)
        os.dup2(saved[1], 2)
        os.close(devnull)
        os.close(saved[0])
        os.close(saved[1])


def pyanalyze_says(expr, pre=""):
    """Return (diagnostics, revealed type) for `x = <expr>` inside a function."""
    code = pre + "\ndef f():\n    x = " + expr + "\n    reveal_type(x)\n"
    errs = _quiet(
        lambda: TestNameCheckVisitorBase()._run_str(code, fail_after_first=False)
    )
    diags, revealed = [], None
    for e in errs:
        name = e["code"].name
        if name == "reveal_type":
            revealed = e["description"]
        elif name == "use_fstrings":
            continue
        else:
            diags.append((name, e["description"].splitlines()[-1][:200]))
    return diags, revealed


def cpython_says(expr, pre=""):
    ns = {}
    exec(pre, ns)
    try:
        res = eval(expr, ns)
        return None, res
    except Exception as e:  # noqa: BLE001
        return f"{type(e).__name__}: {e}", None


print("pyanalyze imported from", pyanalyze.__file__)
