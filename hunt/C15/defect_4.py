"""C15 defect 4: ParamSpec solving (typevar.py:56-78 solve_paramspec) takes the FIRST lower bound as
the solution and only checks the later ones against it, so swapping two callables that share a
ParamSpec flips the verdict.

Run:  cd /tmp/hunt/C15 && /venv/bin/python /tmp/hunt/out/C15/defect_4.py
"""
import contextlib
import io
import os
import sys
import textwrap

sys.path.insert(0, os.getcwd())

from pyanalyze.test_name_check_visitor import TestNameCheckVisitorBase  # noqa: E402


def check(code):
    code = textwrap.dedent(code)
    buf = io.StringIO()
    with contextlib.redirect_stdout(buf), contextlib.redirect_stderr(buf):
        errs = TestNameCheckVisitorBase()._run_str(code, fail_after_first=False)
    out = []
    for e in errs:
        msg = str(e.get("description") or e.get("message") or "")
        out.append((e["lineno"], e["code"].name, msg.splitlines()[0] if msg else ""))
    return out


CODE = """
from typing import Callable
from typing_extensions import ParamSpec
P = ParamSpec("P")

def takes_int(x: int) -> int:
    return 0

def takes_object(x: object) -> int:
    return 0

def both(a: Callable[P, int], b: Callable[P, int]) -> Callable[P, bool]:
    raise NotImplementedError

def capybara() -> None:
    reveal_type(both(takes_int, takes_object))
    reveal_type(both(takes_object, takes_int))
"""
lines = textwrap.dedent(CODE).splitlines()
diags = check(CODE)
verdicts = {}
for lineno, src in enumerate(lines, 1):
    if "reveal_type(both(" not in src:
        continue
    here = [d for d in diags if d[0] == lineno]
    errs = [d for d in here if d[1] != "reveal_type"]
    rev = [d[2] for d in here if d[1] == "reveal_type"]
    verdicts[src.strip()] = "REJECTED" if errs else "accepted"
    print(f"  {src.strip()}")
    print(f"      -> {verdicts[src.strip()]} {rev[0] if rev else ''}")
    for e in errs:
        print(f"         {e[1]}: {e[2]}")

print()
print(
    "Property C15 requires: the verdict does not depend on the order of the arguments that\n"
    "contribute bounds. P = (x: int) satisfies both arguments in either order (a function taking\n"
    "object can be called with an int), so both calls must be accepted (or, at the very least,\n"
    "both get the same verdict)."
)
if len(set(verdicts.values())) > 1:
    print("\nVIOLATION REPRODUCED: same two arguments, swapped ->", verdicts)
    sys.exit(1)
print("\nno violation")
sys.exit(0)
