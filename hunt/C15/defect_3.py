"""C15 defect 3: when the ARGUMENT's type is itself a (constrained) TypeVar, the argument's
constraints are recorded as constraints of the PARAMETER's TypeVar and no lower bound is
recorded at all (value.py:2199-2200 / 2213-2214; typevar.py:113-114 keeps only the last IsOneOf).
Result: calls with disjoint constraint sets are accepted and the "solution" is a constraint of
the wrong TypeVar.

Run:  cd /tmp/hunt/C15 && /venv/bin/python /tmp/hunt/out/C15/defect_3.py
"""
import ast
import contextlib
import io
import os
import sys
import textwrap

sys.path.insert(0, os.getcwd())

from typing import TypeVar  # noqa: E402

from pyanalyze.checker import Checker  # noqa: E402
from pyanalyze.name_check_visitor import NameCheckVisitor  # noqa: E402
from pyanalyze.test_name_check_visitor import TestNameCheckVisitorBase  # noqa: E402
from pyanalyze.typevar import resolve_bounds_map  # noqa: E402
from pyanalyze.value import CanAssignError, TypedValue, TypeVarValue  # noqa: E402


def check(code):
    code = textwrap.dedent(code)
    buf = io.StringIO()
    with contextlib.redirect_stdout(buf), contextlib.redirect_stderr(buf):
        errs = TestNameCheckVisitorBase()._run_str(code, fail_after_first=False)
    out = []
    for e in errs:
        msg = str(e.get("description") or e.get("message") or "")
        out.append((e["lineno"], e["code"].name, msg.splitlines()[0] if msg else ""))
    return out


violations = []

# ------------------------------------------------------------- bound generation
print("== bound generation: TypeVarValue(C: (int, str)).can_assign(TypeVarValue(D: (bytes, float)))")
CTX = NameCheckVisitor("", "", ast.parse(""), checker=Checker())
C = TypeVar("C", int, str)
D = TypeVar("D", bytes, float)
c_val = TypeVarValue(C, constraints=(TypedValue(int), TypedValue(str)))
d_val = TypeVarValue(D, constraints=(TypedValue(bytes), TypedValue(float)))
bounds_map = c_val.can_assign(d_val, CTX)
if isinstance(bounds_map, CanAssignError):
    print("  -> error (fine):", bounds_map)
else:
    for tv, bounds in bounds_map.items():
        print(f"  bounds recorded for {tv}:")
        for b in bounds:
            print("     ", b)
    tv_map, errors = resolve_bounds_map(bounds_map, CTX)
    print(f"  resolve_bounds_map -> errors={list(errors)} solution for C = {tv_map[C]}")
    if not errors:
        violations.append(
            f"bound generation: C:(int,str) accepts a value of type D:(bytes,float); C = {tv_map[C]}"
        )

# ------------------------------------------------------------------ end to end
print()
print("== end to end")
CODE = """
from typing import Dict, List, TypeVar
TInt = TypeVar("TInt", bound=int)
C = TypeVar("C", int, str)
D = TypeVar("D", bytes, float)

def one(x: C) -> C:
    return x

def two(x: C, y: C) -> C:
    return x

def first(xs: List[C]) -> C:
    return xs[0]

def int_like(x: TInt) -> TInt:
    return x

def caller(d: D, ds: List[D], b: bytes) -> None:
    reveal_type(one(d))
    reveal_type(first(ds))
    reveal_type(two(d, 1))
    reveal_type(two(1, d))
    reveal_type(int_like(d))
    reveal_type(one(b))  # control: plain bytes IS rejected
"""
lines = textwrap.dedent(CODE).splitlines()
diags = check(CODE)
first_line = next(i for i, l in enumerate(lines, 1) if "reveal_type(one(d))" in l)
for lineno in range(first_line, first_line + 6):
    here = [d for d in diags if d[0] == lineno]
    errs = [d for d in here if d[1] != "reveal_type"]
    rev = [d[2] for d in here if d[1] == "reveal_type"]
    src = lines[lineno - 1].strip()
    print(f"  {src}")
    print(f"      -> {'REJECTED' if errs else 'accepted'} {rev[0] if rev else ''}")
    for e in errs:
        print(f"         {e[1]}: {e[2]}")
    if "control" not in src and not errs:
        violations.append(f"end-to-end: `{src}` accepted, {rev[0] if rev else ''}")

print()
print(
    "Property C15 requires: the chosen value accepts every argument-derived lower bound (the\n"
    "argument is a bytes or a float), is accepted by the declared bound (int for TInt) and is\n"
    "one of the declared constraints (int or str for C); otherwise the call is diagnosed.\n"
    "None of bytes/float is an int or a str, so every call above except the control must be\n"
    "diagnosed. pyanalyze accepts them and even reports C = float / TInt = float."
)
if violations:
    print("\nVIOLATION REPRODUCED:")
    for v in violations:
        print("  -", v)
    sys.exit(1)
print("\nno violation")
sys.exit(0)
