"""C15 defect 1: the verdict of a generic call depends on the order of the arguments
when one lower bound contains Any (list[Any] / bare list); a lower bound is dropped.

Run:  cd /tmp/hunt/C15 && /venv/bin/python /tmp/hunt/out/C15/defect_1.py
"""
import ast
import contextlib
import io
import itertools
import os
import sys
import textwrap

sys.path.insert(0, os.getcwd())

from typing import TypeVar  # noqa: E402

from pyanalyze.checker import Checker  # noqa: E402
from pyanalyze.name_check_visitor import NameCheckVisitor  # noqa: E402
from pyanalyze.test_name_check_visitor import TestNameCheckVisitorBase  # noqa: E402
from pyanalyze.typevar import resolve_bounds_map  # noqa: E402
from pyanalyze.value import (  # noqa: E402
    AnySource,
    AnyValue,
    GenericValue,
    LowerBound,
    TypedValue,
)


def check(code):
    code = textwrap.dedent(code)
    buf = io.StringIO()
    with contextlib.redirect_stdout(buf), contextlib.redirect_stderr(buf):
        errs = TestNameCheckVisitorBase()._run_str(code, fail_after_first=False)
    out = []
    for e in errs:
        msg = str(e.get("description") or e.get("message") or "")
        out.append((e["lineno"], e["code"].name, msg.splitlines()[0] if msg else ""))
    return out


violations = []

# ---------------------------------------------------------------- solver level
print("== solver level: resolve_bounds_map on three LowerBounds, every order")
CTX = NameCheckVisitor("", "", ast.parse(""), checker=Checker())
T = TypeVar("T")
vals = {
    "list[int]": GenericValue(list, [TypedValue(int)]),
    "list[Any]": GenericValue(list, [AnyValue(AnySource.explicit)]),
    "list[str]": GenericValue(list, [TypedValue(str)]),
}
for perm in itertools.permutations(vals):
    bounds = [LowerBound(T, vals[name]) for name in perm]
    tv_map, errors = resolve_bounds_map({T: bounds}, CTX)
    sol = tv_map[T]
    rejected = [name for name in perm if not sol.is_assignable(vals[name], CTX)]
    print(
        f"  lower bounds in order {perm}: errors={len(errors)} solution={sol}"
        + (f"   <-- solution REJECTS lower bound {rejected}" if rejected else "")
    )
    if not errors and rejected:
        violations.append(f"solver: order {perm} -> {sol} rejects {rejected}")

# ---------------------------------------------------------------- end to end
print()
print("== end to end: def pick(a: T, b: T, c: T) -> T, same three arguments permuted")
HEADER = """
from typing import Any, List, TypeVar
T = TypeVar("T")

def pick(a: T, b: T, c: T) -> T:
    return a

def capybara(li: List[int], la: List[Any], ls: List[str], bare: list):
"""
for anyname in ("la", "bare"):
    verdicts = {}
    for perm in itertools.permutations(["li", anyname, "ls"]):
        call = f"pick({', '.join(perm)})"
        code = HEADER + f"    reveal_type({call})\n"
        call_line = len(textwrap.dedent(code).splitlines())
        diags = [d for d in check(code) if d[0] == call_line]  # only the call itself
        errors = [d for d in diags if d[1] not in ("reveal_type",)]
        revealed = [d[2] for d in diags if d[1] == "reveal_type"]
        verdict = "REJECTED" if errors else "accepted"
        verdicts[perm] = verdict
        print(f"  {call:22} -> {verdict:8} {revealed[0] if revealed else ''}")
        for e in errors:
            print(f"        {e[1]}: {e[2]}")
    if len(set(verdicts.values())) > 1:
        violations.append(
            f"end-to-end: verdict depends on argument order for (li, {anyname}, ls): {verdicts}"
        )

print()
print(
    "Property C15 requires: the verdict does not depend on the order of the arguments\n"
    "that contribute bounds, and the chosen T accepts every argument-derived lower bound\n"
    "(here T = list[int] | list[str] or list[Any] works for every order)."
)
if violations:
    print("\nVIOLATION REPRODUCED:")
    for v in violations:
        print("  -", v)
    sys.exit(1)
print("\nno violation")
sys.exit(0)
