"""C15 defect 2: incomparable UPPER bounds are folded with a union (typevar.py:109), so the
chosen value is not accepted by every upper bound / by the declared bound.

Run:  cd /tmp/hunt/C15 && /venv/bin/python /tmp/hunt/out/C15/defect_2.py
"""
import ast
import contextlib
import io
import itertools
import os
import sys
import textwrap

sys.path.insert(0, os.getcwd())

from typing import TypeVar  # noqa: E402

from pyanalyze.checker import Checker  # noqa: E402
from pyanalyze.name_check_visitor import NameCheckVisitor  # noqa: E402
from pyanalyze.test_name_check_visitor import TestNameCheckVisitorBase  # noqa: E402
from pyanalyze.typevar import resolve_bounds_map  # noqa: E402
from pyanalyze.value import LowerBound, TypedValue, UpperBound  # noqa: E402


def check(code):
    code = textwrap.dedent(code)
    buf = io.StringIO()
    with contextlib.redirect_stdout(buf), contextlib.redirect_stderr(buf):
        errs = TestNameCheckVisitorBase()._run_str(code, fail_after_first=False)
    out = []
    for e in errs:
        msg = str(e.get("description") or e.get("message") or "")
        out.append((e["lineno"], e["code"].name, msg.splitlines()[0] if msg else ""))
    return out


violations = []
CTX = NameCheckVisitor("", "", ast.parse(""), checker=Checker())
T = TypeVar("T")
INT, STR, BOOL = TypedValue(int), TypedValue(str), TypedValue(bool)


def describe(bounds):
    return ", ".join(
        ("T <= " if isinstance(b, UpperBound) else "T >= ") + str(b.value) for b in bounds
    )


def solve(bounds):
    tv_map, errors = resolve_bounds_map({T: list(bounds)}, CTX)
    return (None if errors else tv_map[T])


def unsatisfied(sol, bounds):
    bad = []
    for b in bounds:
        if isinstance(b, UpperBound) and not b.value.is_assignable(sol, CTX):
            bad.append(f"upper bound {b.value} does not accept {sol}")
        if isinstance(b, LowerBound) and not sol.is_assignable(b.value, CTX):
            bad.append(f"{sol} does not accept lower bound {b.value}")
    return bad


print("== solver level (pyanalyze.typevar.resolve_bounds_map)")
for bounds in (
    [UpperBound(T, INT), UpperBound(T, STR)],
    [UpperBound(T, INT), UpperBound(T, STR), LowerBound(T, INT)],
    [LowerBound(T, STR), UpperBound(T, STR), UpperBound(T, INT)],
):
    sol = solve(bounds)
    print(f"  {describe(bounds)}")
    print(f"      -> {'ERROR (diagnosed)' if sol is None else 'accepted, T = ' + str(sol)}")
    if sol is not None:
        for msg in unsatisfied(sol, bounds):
            print("         but", msg)
            violations.append(f"solver: {describe(bounds)} -> {sol}: {msg}")

print()
print("  order dependence with upper bounds only + one lower bound:")
multiset = [UpperBound(T, BOOL), UpperBound(T, INT), UpperBound(T, STR), LowerBound(T, STR)]
verdicts = {}
for perm in itertools.permutations(multiset):
    sol = solve(perm)
    verdicts.setdefault("error" if sol is None else f"accepted T={sol}", []).append(perm)
for verdict, perms in verdicts.items():
    print(f"    {verdict}: {len(perms)} orders, e.g. {describe(perms[0])}")
if len({v.startswith('accepted') for v in verdicts}) > 1:
    violations.append(
        "solver: verdict for {T<=bool, T<=int, T<=str, T>=str} depends on order: "
        + ", ".join(f"{k}: {len(v)} orders" for k, v in verdicts.items())
    )

print()
print("== end to end: argument typed with a TypeVar bound to str, parameter TypeVar bound to int")
CODE = """
from typing import List, TypeVar
TInt = TypeVar("TInt", bound=int)
TStr = TypeVar("TStr", bound=str)

def wants_int_like(x: TInt) -> TInt:
    return x

def first_int_like(xs: List[TInt]) -> TInt:
    return xs[0]

def wants_plain_int(x: int) -> None:
    pass

def caller(s: TStr, ss: List[TStr], plain: str) -> None:
    reveal_type(wants_int_like(s))
    reveal_type(first_int_like(ss))
    wants_plain_int(s)
    reveal_type(wants_int_like(plain))  # control: a plain str IS rejected
"""
lines = textwrap.dedent(CODE).splitlines()
diags = check(CODE)
for lineno in range(16, 20):
    here = [d for d in diags if d[0] == lineno]
    errs = [d for d in here if d[1] != "reveal_type"]
    rev = [d[2] for d in here if d[1] == "reveal_type"]
    src = lines[lineno - 1].strip()
    print(f"  {src}")
    print(f"      -> {'REJECTED' if errs else 'accepted'} {rev[0] if rev else ''}")
    for e in errs:
        print(f"         {e[1]}: {e[2]}")
    if lineno < 19 and not errs:
        violations.append(f"end-to-end: `{src}` accepted {rev[0] if rev else ''}")

print()
print(
    "Property C15 requires: the chosen value is accepted by every upper bound and by the\n"
    "declared bound, else the call is diagnosed, independent of order. No value is both an\n"
    "int and a str, so {T <= int, T <= str} (declared bound int, argument type bounded by\n"
    "str) has no solution and must be diagnosed; pyanalyze picks T = int | str instead."
)
if violations:
    print("\nVIOLATION REPRODUCED:")
    for v in violations:
        print("  -", v)
    sys.exit(1)
print("\nno violation")
sys.exit(0)
