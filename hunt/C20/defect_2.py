"""C20 defect 2: a permissive match (exclude_any=False) rewrites an Any argument to the tested type.

After is_of_type(x, T, exclude_any=False) succeeded for x: Any, x is treated as T:
  * a later default (exclude_any=True) is_of_type(x, T) is true although the argument is Any
    ("Any matches only Any unless exclude_any=False");
  * a later permissive test against another type is false although Any is compatible with it.
    docs/type_evaluation.md ("Interaction with Any") states that
    `is_of_type(mode, Literal["r"]) and is_of_type(mode, Literal["w"])` under the permissive
    semantics is true exactly for Any.
"""
import os, sys
sys.path.insert(0, os.getcwd())
sys.path.insert(1, os.path.dirname(os.path.abspath(__file__)))
from _common import run

CODE = '''
@evaluated
def both(mode):
    if is_of_type(mode, Literal["r"], exclude_any=False) and is_of_type(mode, Literal["w"], exclude_any=False):
        return int
    else:
        return str

def both(mode):
    return mode

@evaluated
def strict_after_permissive(x):
    if is_of_type(x, int, exclude_any=False):
        if is_of_type(x, int):
            return int
        return bytes
    return str

def strict_after_permissive(x):
    return x

@evaluated
def strict_alone(x):
    if is_of_type(x, int):
        return int
    return bytes

def strict_alone(x):
    return x

def capybara(a: Any):
    reveal_type(both(a))
    reveal_type(strict_after_permissive(a))
    reveal_type(strict_alone(a))
'''

res = run(CODE)
for r in res:
    print(r)
d = {l: m for (l, c, m) in res if c == "reveal_type"}
both = d["reveal_type(both(a))"]
sap = d["reveal_type(strict_after_permissive(a))"]
print()
print("both(Any): pyanalyze ->", both, "| required: 'int' (Any is compatible with Literal['r'] and with Literal['w'])")
print("strict_after_permissive(Any): pyanalyze ->", sap,
      "| required: 'bytes' (inner is_of_type(x, int) has exclude_any=True, Any only matches Any;"
      " cf. strict_alone(Any) ->", d["reveal_type(strict_alone(a))"], ")")
bad = ("'int'" not in both) or ("'bytes'" not in sap)
print("VIOLATION REPRODUCED" if bad else "no violation")
sys.exit(1 if bad else 0)
