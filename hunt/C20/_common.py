"""Shared helper for the defect scripts (kept next to them)."""
import contextlib
import io
import os
import sys

sys.path.insert(0, os.getcwd())

PRELUDE = """
from typing import Union, Any, Optional
from typing_extensions import Literal, TypedDict, NotRequired
from pyanalyze.extensions import (
    evaluated, is_of_type, is_provided, is_keyword, is_positional, show_error
)
"""


def run(code):
    """Run pyanalyze on PRELUDE+code; return [(source line, error code, first line of message)]."""
    import pyanalyze
    from pyanalyze.test_name_check_visitor import TestNameCheckVisitorBase

    assert os.path.dirname(os.path.dirname(os.path.abspath(pyanalyze.__file__))) == os.path.abspath(
        os.getcwd()
    ), f"pyanalyze imported from {pyanalyze.__file__}, not from cwd"
    code = PRELUDE + code
    buf = io.StringIO()
    with contextlib.redirect_stdout(buf), contextlib.redirect_stderr(buf):
        errs = TestNameCheckVisitorBase()._run_str(code, fail_after_first=False)
    lines = code.splitlines()
    out = []
    for e in errs:
        msg = e["description"].splitlines()[0]
        # strip the noisy "<test input hash>." prefix
        if "In call to " in msg and ">." in msg:
            msg = "In call to " + msg.split(">.", 1)[1]
        out.append((lines[e["lineno"] - 1].strip(), e["code"].name, msg))
    return out
