"""C20 defect 3: an omitted parameter whose default is `...` has type Literal[Ellipsis].

Spec (docs/type_evaluation.md): "If the default is `...`, the type is the parameter's
annotation instead."  Example there: with_defaults() -> x is "int".
"""
import os, sys
sys.path.insert(0, os.getcwd())
sys.path.insert(1, os.path.dirname(os.path.abspath(__file__)))
from _common import run

CODE = '''
@evaluated
def with_defaults(x: int = ..., y: int = 1) -> None:
    reveal_type(x)

def with_defaults(x=1, y=1):
    pass

@evaluated
def f(x: int = ...):
    if is_of_type(x, int):
        return int
    return str

def f(x=1):
    return x

def capybara():
    with_defaults()
    reveal_type(f())
    reveal_type(f(1))
'''

res = run(CODE)
for r in res:
    print(r)
wd = [m for (l, c, m) in res if l == "with_defaults()"]
fr = [m for (l, c, m) in res if l == "reveal_type(f())" and c == "reveal_type"]
print()
print("with_defaults(): pyanalyze ->", wd, "| required: Type of x is 'int'")
print("f() with `x: int = ...`: pyanalyze ->", fr, "| required: 'int' (x has its annotation type int, so is_of_type(x, int) holds)")
bad = any("Ellipsis" in m for m in wd) or any("'str'" in m for m in fr)
print("VIOLATION REPRODUCED" if bad else "no violation")
sys.exit(1 if bad else 0)
