"""C20 defect 4: a keyword that is only *possibly* present in **kwargs counts as KEYWORD.

f(**td) with td a TypedDict whose key `y` is NotRequired (or **(d1 if c else d2) where only
one dict has `y`): the call may or may not supply y, i.e. the argument kind cannot be
determined statically (UNKNOWN in the spec), so is_provided(y)/is_keyword(y) must be False.
pyanalyze answers True and so returns a type that is wrong when the key is absent and
emits show_error for calls that may be fine.
"""
import os, sys
sys.path.insert(0, os.getcwd())
sys.path.insert(1, os.path.dirname(os.path.abspath(__file__)))
from _common import run

CODE = '''
class TD(TypedDict):
    y: NotRequired[str]

@evaluated
def f(y: str = ""):
    if is_provided(y):
        return int
    else:
        return str

def f(y=""):
    return 1 if y else ""

@evaluated
def reject_keyword(arg: str = "") -> None:
    if is_keyword(arg):
        show_error("do not pass arg by keyword")

def reject_keyword(arg=""):
    pass

class TD2(TypedDict):
    arg: NotRequired[str]

def capybara(td: TD, td2: TD2, c: bool, kwargs: dict[str, str]):
    reveal_type(f(**td))
    reveal_type(f(**({"y": "a"} if c else {})))
    reveal_type(f(**kwargs))
    reject_keyword(**td2)
    reject_keyword(**kwargs)
'''

res = run(CODE)
for r in res:
    print(r)
d = {l: m for (l, c, m) in res if c == "reveal_type"}
errs = [(l, m) for (l, c, m) in res if c == "incompatible_call"]
print()
print("f(**td), y NotRequired: pyanalyze ->", d["reveal_type(f(**td))"],
      "| required: 'str' (kind UNKNOWN -> is_provided False), as for f(**kwargs) ->", d["reveal_type(f(**kwargs))"])
print("f(**({'y': 'a'} if c else {})): pyanalyze ->", d['reveal_type(f(**({"y": "a"} if c else {})))'], "| required: 'str'")
print("reject_keyword(**td2): pyanalyze errors ->", errs, "| required: no show_error (kind UNKNOWN)")
bad = "'int'" in d["reveal_type(f(**td))"] or any(l == "reject_keyword(**td2)" for l, _ in errs)
print("VIOLATION REPRODUCED" if bad else "no violation")
sys.exit(1 if bad else 0)
