"""C20 defect 1: narrowing from an `if ...: return` is not carried to the statements after it.

For a union argument, every member returns in one of two consecutive `if`s, yet
pyanalyze also executes the code after them: show_error() fires in a branch no
union member reaches, and the result type contains a type no member produces.
"""
import os, sys
sys.path.insert(0, os.getcwd())
sys.path.insert(1, os.path.dirname(os.path.abspath(__file__)))
from _common import run

CODE = '''
@evaluated
def f(x: Union[int, str]):
    if is_of_type(x, int):
        return int
    if is_of_type(x, str):
        return str
    show_error("unreachable")
    return bytes

def f(x):
    return x

def capybara(u: Union[int, str]):
    reveal_type(f(1))
    reveal_type(f("s"))
    reveal_type(f(u))
'''

res = run(CODE)
for r in res:
    print(r)
union_line = "reveal_type(f(u))"
revealed = [m for (l, c, m) in res if l == union_line and c == "reveal_type"]
errors = [m for (l, c, m) in res if l == union_line and c == "incompatible_call"]
print()
print("pyanalyze for f(u), u: int | str ->", revealed, "errors:", errors)
print("required: f(int) = int, f(str) = str, so f(int | str) = 'int | str' and NO show_error "
      "(neither member reaches show_error('unreachable') / return bytes)")
bad = bool(errors) or any("bytes" in m for m in revealed)
print("VIOLATION REPRODUCED" if bad else "no violation")
sys.exit(1 if bad else 0)
