"""C07 defect 1: a generic function is accepted for a concrete Callable type even
though no choice of its type variable satisfies both the parameter and the return
constraint (return covariance is lost).

run: cd /tmp/hunt/C07 && /venv/bin/python /tmp/hunt/out/C07/defect_1.py
"""
import os
import sys
import textwrap

sys.path.insert(0, os.getcwd())

from typing import TypeVar

import pyanalyze
from pyanalyze.checker import Checker
from pyanalyze.test_name_check_visitor import TestNameCheckVisitorBase
from pyanalyze.typevar import resolve_bounds_map
from pyanalyze.value import CanAssignError, KnownValue

print("pyanalyze from", pyanalyze.__file__)

CODE = textwrap.dedent(
    '''
    from typing import Callable, List, Sequence, TypeVar
    from typing_extensions import Protocol

    T = TypeVar("T")

    def ident(x: T) -> T:
        return x

    def first(x: Sequence[T]) -> T:
        return x[0]

    def use_is(cb: Callable[[int], str]) -> str:
        return cb(1).upper()

    def use_li(cb: Callable[[List[int]], str]) -> str:
        return cb([1]).upper()

    class P(Protocol):
        def __call__(self, x: int) -> str:
            raise NotImplementedError

    def use_p(cb: P) -> str:
        return cb(1).upper()

    def main() -> None:
        use_is(ident)   # ident(1) is 1, not a str
        use_li(first)   # first([1]) is 1, not a str
        use_p(ident)
        x: Callable[[int], str] = ident
        print(x)
    '''
)

import contextlib
import io

with contextlib.redirect_stdout(io.StringIO()):
    errors = TestNameCheckVisitorBase()._run_str(CODE, fail_after_first=False)
checker_output = [(e["lineno"], e["code"].name, e["description"]) for e in errors]

print("--- checker on snippet passing ident (x: T) -> T where Callable[[int], str] is expected")
print("diagnostics:", checker_output if checker_output else "NONE (all four uses accepted)")

# API level
T = TypeVar("T")


def ident(x: T) -> T:
    return x


def expected(x: int) -> str:
    return ""


ctx = Checker()
res = KnownValue(expected).can_assign(KnownValue(ident), ctx)
accepted = not isinstance(res, CanAssignError)
print("--- Literal[expected (x: int) -> str] <- ident (x: T) -> T :", "ACCEPTED" if accepted else "rejected")
if accepted:
    print("bounds returned (never resolved by anybody):", res)
    _, errors = resolve_bounds_map(res, ctx)
    print("resolving them gives errors:", [e.message for e in errors])

# run-time witness
def use_is(cb):
    return cb(1).upper()


try:
    use_is(ident)
    runtime_fail = False
except AttributeError as e:
    runtime_fail = True
    print("run time: use_is(ident) ->", type(e).__name__, e)

print(
    "property requires: return type covariant - (x: T) -> T instantiated at a parameter type int"
    " returns int, which is not a str, so the pair must be rejected"
)
violated = accepted and not checker_output and runtime_fail
print("VIOLATION REPRODUCED" if violated else "not reproduced")
sys.exit(1 if violated else 0)
