"""C07 defect 3: an expected positional-or-keyword parameter x that is absorbed by the
actual's *args/**kwargs is only compared with the *args/**kwargs element types; a
parameter of the SAME NAME in the actual (keyword-only, or positional-or-keyword sitting
at another index) is ignored, although the keyword call e(x=...) lands exactly there.
Parameter contravariance is lost (no 'multiple values' double fill is involved).

run: cd /tmp/hunt/C07 && /venv/bin/python /tmp/hunt/out/C07/defect_3.py
"""
import contextlib
import io
import os
import sys
import textwrap

sys.path.insert(0, os.getcwd())

import pyanalyze
from pyanalyze.checker import Checker
from pyanalyze.test_name_check_visitor import TestNameCheckVisitorBase
from pyanalyze.value import CanAssignError, KnownValue

print("pyanalyze from", pyanalyze.__file__)
ctx = Checker()


# --- variant A: same-named keyword-only parameter in the actual
def expected_a(x: int) -> None: ...
def actual_a(*args: int, x: str = "", **kwargs: int) -> None:
    x.upper()

# control: the very same incompatibility is noticed when x is compared directly
def control_a(x: str = "") -> None: ...

# --- variant B: same-named positional-or-keyword parameter at another index
def expected_b(a: str = "", /, c: int = 0) -> None: ...
def actual_b(c: str = "", *args: int, **kwargs: int) -> None:
    c.upper()


def accepted(e, a):
    res = KnownValue(e).can_assign(KnownValue(a), ctx)
    ok = not isinstance(res, CanAssignError)
    print(f"  {ctx.get_signature(e)}  <-  {ctx.get_signature(a)} : {'ACCEPTED' if ok else 'rejected'}")
    return ok

print("Signature.can_assign:")
acc_a = accepted(expected_a, actual_a)
acc_ctrl = accepted(expected_a, control_a)
acc_b = accepted(expected_b, actual_b)

fails = {}
for name, call_e, call_a in [
    ("A: cb(x=5)", lambda: expected_a(x=5), lambda: actual_a(x=5)),
    ("B: cb(c=5)", lambda: expected_b(c=5), lambda: actual_b(c=5)),
]:
    call_e()
    try:
        call_a()
        fails[name] = False
    except AttributeError as e:
        fails[name] = True
        print(f"run time: {name} is fine for expected, but the int reaches a str parameter of actual: {e}")

CODE = textwrap.dedent(
    '''
    from typing_extensions import Protocol

    class P(Protocol):
        def __call__(self, x: int) -> None:
            raise NotImplementedError

    def g(*args: int, x: str = "", **kwargs: int) -> None:
        x.upper()

    def use(cb: P) -> None:
        cb(x=5)

    def main() -> None:
        use(g)
    '''
)
with contextlib.redirect_stdout(io.StringIO()), contextlib.redirect_stderr(io.StringIO()):
    errors = TestNameCheckVisitorBase()._run_str(CODE, fail_after_first=False)
print("checker on callback-protocol snippet use(g):", [(e["lineno"], e["code"].name) for e in errors] or "NO DIAGNOSTICS")

print(
    "property requires: parameter types contravariant under the membership model - the keyword"
    " argument x=5 (an int, allowed by expected) is bound to actual's `x: str`, so the pair must be rejected"
)
violated = acc_a and not acc_ctrl and fails["A: cb(x=5)"] and not errors
print("variant B also reproduced:", bool(acc_b and fails["B: cb(c=5)"]))
print("VIOLATION REPRODUCED" if violated else "not reproduced")
sys.exit(1 if violated else 0)
