"""C07 defect 4: when the signature of a bound method cannot be computed (binding
`self` fails), CallableValue.can_assign silently falls back to "any callable object
is fine", so the method is accepted for EVERY Callable[...] type, whatever its shape.

run: cd /tmp/hunt/C07 && /venv/bin/python /tmp/hunt/out/C07/defect_4.py
"""
import contextlib
import io
import os
import sys
import textwrap

sys.path.insert(0, os.getcwd())

import pyanalyze
from pyanalyze.test_name_check_visitor import TestNameCheckVisitorBase

print("pyanalyze from", pyanalyze.__file__)

CODE = textwrap.dedent(
    '''
    from typing import Callable

    class A:
        def plain(self) -> int:
            return 1

        def only_for_b(self: "B") -> int:   # usable on B instances only; takes no arguments
            return 1

    class B(A):
        pass

    def use1(cb: Callable[[int], int]) -> int:
        return cb(1)

    def use3(cb: Callable[[str, str, str], int]) -> int:
        return cb("a", "b", "c")

    def main(a: A) -> None:
        use1(a.plain)        # line 21: control, rejected (takes no arguments)
        use1(a.only_for_b)   # line 22: same shape, accepted
        use3(a.only_for_b)   # line 23: accepted as well
    '''
)
with contextlib.redirect_stdout(io.StringIO()), contextlib.redirect_stderr(io.StringIO()):
    errors = TestNameCheckVisitorBase()._run_str(CODE, fail_after_first=False)
lines = sorted(e["lineno"] for e in errors if e["code"].name == "incompatible_argument")
print("incompatible_argument reported on lines:", lines, "(21 = control a.plain, 22/23 = a.only_for_b)")

ns = {}
exec(CODE, ns)
runtime_fail = False
try:
    ns["use1"](ns["A"]().only_for_b)
except TypeError as e:
    runtime_fail = True
    print("run time: use1(A().only_for_b) ->", e)

print(
    "property requires: every call shape of the expected Callable[[int], int] is accepted by the"
    " actual; a method taking no arguments must be rejected (as the control a.plain is)"
)
violated = 21 in lines and 22 not in lines and 23 not in lines and runtime_fail
print("VIOLATION REPRODUCED" if violated else "not reproduced")
sys.exit(1 if violated else 0)
