"""C07 defect 2: override checking treats the first parameter of a @staticmethod as
'self' and drops it from both signatures, so an override that changes the type, the
name or the requiredness of the first real parameter is accepted.

run: cd /tmp/hunt/C07 && /venv/bin/python /tmp/hunt/out/C07/defect_2.py
"""
import os
import sys
import textwrap

sys.path.insert(0, os.getcwd())

import pyanalyze
from pyanalyze.test_name_check_visitor import TestNameCheckVisitorBase

print("pyanalyze from", pyanalyze.__file__)

CODE = textwrap.dedent(
    '''
    class Base:
        @staticmethod
        def typ(x: int, y: int = 0) -> int:
            return x

        @staticmethod
        def opt(x: int = 0) -> int:
            return x

        @staticmethod
        def name(x: int) -> int:
            return x

        def control(self, x: int) -> int:
            return x

    class Child(Base):
        @staticmethod
        def typ(x: str, y: int = 0) -> int:  # incompatible parameter type
            return len(x)

        @staticmethod
        def opt(x: int) -> int:  # parameter became required
            return x

        @staticmethod
        def name(z: int) -> int:  # parameter renamed
            return z

        def control(self, x: str) -> int:  # the same change on an instance method
            return len(x)
    '''
)

import contextlib
import io

with contextlib.redirect_stdout(io.StringIO()):
    errors = TestNameCheckVisitorBase()._run_str(CODE, fail_after_first=False)
out = "\n".join(e["description"] for e in errors)
print("diagnostics:", [(e["lineno"], e["code"].name, e["description"].split("<class")[0]) for e in errors])

flagged = {
    name: f"Value of {name} incompatible with base class" in out
    for name in ("typ", "opt", "name", "control")
}
print("incompatible_override reported by pyanalyze:", flagged)

ns = {}
exec(CODE, ns)
Base, Child = ns["Base"], ns["Child"]
witnesses = [
    ("typ", lambda c: c.typ(1)),
    ("opt", lambda c: c.opt()),
    ("name", lambda c: c.name(x=1)),
]
runtime_fail = {}
for name, call in witnesses:
    call(Base)  # accepted by the base signature
    try:
        call(Child)
        runtime_fail[name] = False
    except TypeError as e:
        runtime_fail[name] = True
        print(f"run time: call valid for Base.{name} fails on Child.{name}: {e}")

print(
    "property requires: every call shape accepted by the overridden (expected) signature is"
    " accepted by the override, parameter types contravariant -> all three overrides must be"
    " reported like the instance-method control is"
)
violated = flagged["control"] and any(
    runtime_fail[n] and not flagged[n] for n in ("typ", "opt", "name")
)
print("VIOLATION REPRODUCED" if violated else "not reproduced")
sys.exit(1 if violated else 0)
