"""C03 defect 4: a concrete dict with a non-str key is accepted by a (non-closed) TypedDict.
TypedDictValue.can_assign has a separate branch for KnownValue dicts that forgets the
"key is not a string" check that the DictIncompleteValue branch performs."""
import os
import sys

sys.path.insert(0, os.getcwd())
sys.path.insert(0, os.path.dirname(os.path.abspath(__file__)))
from _common import Tally, line_of, run_checker  # noqa: E402

from typing_extensions import NotRequired, TypedDict  # noqa: E402

from pyanalyze.runtime import _get_checker, is_assignable  # noqa: E402
from pyanalyze.annotations import type_from_runtime  # noqa: E402
from pyanalyze.value import KnownValue, replace_known_sequence_value  # noqa: E402


class TD(TypedDict):
    a: int
    b: NotRequired[str]


class TDX(TypedDict, extra_items=int):
    a: int


t = Tally()
print("runtime.is_assignable:")
t.check("is_assignable({'a': 1, 2: 3}, TD)", is_assignable({"a": 1, 2: 3}, TD), False)
t.check("is_assignable({'a': 1, None: 3}, TD)", is_assignable({"a": 1, None: 3}, TD), False)
t.check("is_assignable({'a': 1, (1, 2): 3}, TDX)  (extra_items=int)", is_assignable({"a": 1, (1, 2): 3}, TDX), False)
t.check("is_assignable([{'a': 1, 2: 3}], list[TD])  (nested)", is_assignable([{"a": 1, 2: 3}], list[TD]), False)
t.check("is_assignable({'a': 1, 'zz': 3}, TD)  (control: extra str key, open TypedDict)", is_assignable({"a": 1, "zz": 3}, TD), True)
t.check("is_assignable({'a': 1, 2: 3}, dict[str, int])  (control)", is_assignable({"a": 1, 2: 3}, dict[str, int]), False)

print("the same dict, expressed element-wise, IS rejected by the sibling branch:")
ctx = _get_checker()
tdv = type_from_runtime(TD)
known = KnownValue({"a": 1, 2: 3})
elementwise = replace_known_sequence_value(known)
r1 = tdv.can_assign(known, ctx)
r2 = tdv.can_assign(elementwise, ctx)
print("  TD.can_assign(KnownValue(d))          ->", r1 if r1 == {} else r1.display(depth=0).strip())
print("  TD.can_assign(DictIncompleteValue(d)) ->", r2 if r2 == {} else r2.display(depth=0).strip())

print("checker:")
CODE = """
    from typing_extensions import TypedDict, NotRequired

    class TD(TypedDict):
        a: int
        b: NotRequired[str]

    def want(x: TD) -> None: pass

    def capybara(y: int):
        p: TD = {'a': 1, 2: 3}
        want({'a': 1, 2: 3})
        want({'a': y, 2: 3})
"""
errors = run_checker(CODE)
for e in errors:
    print("   ", e)
lines = {e[0] for e in errors if e[1].startswith("incompatible")}
t.check("`p: TD = {'a': 1, 2: 3}` diagnosed", line_of(CODE, "p: TD") in lines, True)
t.check("`want({'a': 1, 2: 3})` diagnosed", line_of(CODE, "want({'a': 1, 2: 3})") in lines, True)
t.check("`want({'a': y, 2: 3})` diagnosed (same shape, one non-literal value)", line_of(CODE, "want({'a': y") in lines, True)
t.finish()
