"""C03 defect 1: isinstance() fallback in TypedValue.can_assign overrides a failed
structural (protocol) check, so generic arguments / member types of protocols are
ignored for concrete objects."""
import os
import sys

sys.path.insert(0, os.getcwd())
sys.path.insert(0, os.path.dirname(os.path.abspath(__file__)))
from _common import Tally, line_of, run_checker  # noqa: E402

import enum  # noqa: E402
from typing import (  # noqa: E402
    Iterable,
    Iterator,
    Protocol,
    Reversible,
    SupportsAbs,
    runtime_checkable,
)

from pyanalyze.runtime import get_assignability_error, is_assignable  # noqa: E402
from pyanalyze.runtime import _get_checker  # noqa: E402
from pyanalyze.annotations import type_from_runtime  # noqa: E402
from pyanalyze.value import KnownValue, TypedValue  # noqa: E402


class StrIter:
    def __iter__(self) -> Iterator[str]:
        return iter(["x"])


class Color(enum.Enum):
    R = 1


@runtime_checkable
class HasX(Protocol):
    x: int


class HasXNotRuntime(Protocol):
    x: int


class StrX:
    x = "s"


t = Tally()
print("runtime.is_assignable:")
# reversed({'a': 1}) yields 'a', a str: the dict is a Reversible[str], not a Reversible[int]
t.check("is_assignable({'a': 1}, Reversible[int])", is_assignable({"a": 1}, Reversible[int]), False)
t.check("is_assignable({'a': 1}, Reversible[str])", is_assignable({"a": 1}, Reversible[str]), True)
t.check("is_assignable(StrIter(), Iterable[int])", is_assignable(StrIter(), Iterable[int]), False)
t.check("is_assignable(StrIter(), Iterable[str])", is_assignable(StrIter(), Iterable[str]), True)
t.check("is_assignable(1, SupportsAbs[str])   (abs(1) is an int)", is_assignable(1, SupportsAbs[str]), False)
t.check("is_assignable(Color, Iterable[int])  (iterating Color yields Color members)", is_assignable(Color, Iterable[int]), False)
t.check("is_assignable(StrX(), HasX)  (x: int required, StrX.x is a str)", is_assignable(StrX(), HasX), False)
t.check("same object, same protocol without @runtime_checkable", is_assignable(StrX(), HasXNotRuntime), False)

print("the structural check itself does find the mismatch; it is then discarded:")
ctx = _get_checker()
T = type_from_runtime(Iterable[int])
print("  TypeObject.can_assign ->", T.get_type_object(ctx).can_assign(T, KnownValue(StrIter()), ctx).display(depth=2).strip().replace("\n", " | "))
print("  Iterable[int].can_assign(TypedValue(StrIter)) is error:", not T.is_assignable(TypedValue(StrIter), ctx))
print("  get_assignability_error(StrIter(), Iterable[int]) ->", get_assignability_error(StrIter(), Iterable[int]))

print("checker:")
CODE = """
    from typing import Iterable, Iterator, Reversible, SupportsAbs

    class StrIter:
        def __iter__(self) -> Iterator[str]:
            return iter(["x"])

    SI = StrIter()

    def want_iter(x: Iterable[int]) -> None: pass

    def capybara(si: StrIter):
        a: SupportsAbs[str] = 1
        b: Reversible[int] = {'a': 1}
        want_iter(SI)                      # known object
        want_iter(si)                      # same class, not a known object
    """
errors = run_checker(CODE)
for e in errors:
    print("   ", e)
lines = {e[0] for e in errors if e[1].startswith("incompatible")}
t.check("`a: SupportsAbs[str] = 1` diagnosed", line_of(CODE, "a: SupportsAbs") in lines, True)
t.check("`b: Reversible[int] = {'a': 1}` diagnosed", line_of(CODE, "b: Reversible") in lines, True)
t.check("`want_iter(SI)` (module-level StrIter instance) diagnosed", line_of(CODE, "want_iter(SI)") in lines, True)
t.check("`want_iter(si)` (parameter of type StrIter) diagnosed", line_of(CODE, "want_iter(si)") in lines, True)
t.finish()
