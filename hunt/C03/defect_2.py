"""C03 defect 2: bare typing.Tuple (= tuple[Any, ...]) is converted to the EMPTY tuple
type tuple[()], so every non-empty tuple is rejected."""
import os
import sys

sys.path.insert(0, os.getcwd())
sys.path.insert(0, os.path.dirname(os.path.abspath(__file__)))
from _common import Tally, line_of, run_checker  # noqa: E402

import typing  # noqa: E402
from typing import Dict, List, Tuple  # noqa: E402

from pyanalyze.annotations import type_from_runtime  # noqa: E402
from pyanalyze.runtime import get_assignability_error, is_assignable  # noqa: E402

t = Tally()
print("type_from_runtime(typing.Tuple) =", type_from_runtime(Tuple))
print("type_from_runtime(tuple)        =", type_from_runtime(tuple))
print("type_from_runtime(typing.List)  =", type_from_runtime(List))
print("runtime.is_assignable:")
t.check("is_assignable((1,), typing.Tuple)", is_assignable((1,), Tuple), True)
t.check("is_assignable((1, 'x'), typing.Tuple)", is_assignable((1, "x"), Tuple), True)
t.check("is_assignable((), typing.Tuple)", is_assignable((), Tuple), True)
t.check("is_assignable((1,), tuple)   (control: builtin spelling)", is_assignable((1,), tuple), True)
t.check("is_assignable([1], typing.List)  (control: other bare alias)", is_assignable([1], List), True)
t.check("is_assignable({1: 2}, typing.Dict)  (control)", is_assignable({1: 2}, Dict), True)
t.check("is_assignable(((1,),), typing.Tuple[typing.Tuple])  (nested)", is_assignable(((1,),), typing.Tuple[Tuple]), True)
print("  error text:", get_assignability_error((1,), Tuple))

print("checker:")
CODE = """
    from typing import Tuple, List

    def want(x: Tuple) -> None: pass

    def capybara():
        a: Tuple = (1,)
        b: List = [1]
        want((1, 2))
"""
errors = run_checker(CODE)
for e in errors:
    print("   ", e)
lines = {e[0] for e in errors if e[1].startswith("incompatible")}
t.check("`a: Tuple = (1,)` diagnosed", line_of(CODE, "a: Tuple") in lines, False)
t.check("`b: List = [1]` diagnosed (control)", line_of(CODE, "b: List") in lines, False)
t.check("`want((1, 2))` with `x: Tuple` diagnosed", line_of(CODE, "want((1, 2))") in lines, False)
t.finish()
