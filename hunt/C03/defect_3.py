"""C03 defect 3: type[None], type[X | None] / Type[Optional[X]] and type[Annotated[X, ...]]
degrade to Any, so every object (not even a class) is accepted."""
import os
import sys

sys.path.insert(0, os.getcwd())
sys.path.insert(0, os.path.dirname(os.path.abspath(__file__)))
from _common import Tally, line_of, run_checker  # noqa: E402

from typing import Annotated, Optional, Type, Union  # noqa: E402

from pyanalyze.annotations import type_from_runtime  # noqa: E402
from pyanalyze.runtime import is_assignable  # noqa: E402

NoneType = type(None)
t = Tally()
print("type_from_runtime(type[None])           =", repr(type_from_runtime(type[None])))
print("type_from_runtime(Type[Optional[int]])  =", repr(type_from_runtime(Type[Optional[int]])))
print("type_from_runtime(type[Annotated[int, 'm']]) =", repr(type_from_runtime(type[Annotated[int, "m"]])))
print("runtime.is_assignable:")
t.check("is_assignable(1, type[None])", is_assignable(1, type[None]), False)
t.check("is_assignable(None, type[None])  (None is not a class)", is_assignable(None, type[None]), False)
t.check("is_assignable(NoneType, type[None])", is_assignable(NoneType, type[None]), True)
t.check("is_assignable('x', Type[Optional[int]])", is_assignable("x", Type[Optional[int]]), False)
t.check("is_assignable(str, type[int | None])", is_assignable(str, type[Union[int, None]]), False)
t.check("is_assignable(bool, type[int | None])", is_assignable(bool, type[Union[int, None]]), True)
t.check("is_assignable(str, type[int | float])  (control: union without None)", is_assignable(str, type[Union[int, float]]), False)
t.check("is_assignable('x', type[Annotated[int, 'm']])", is_assignable("x", type[Annotated[int, "m"]]), False)
t.check("is_assignable('x', Annotated[type[int], 'm'])  (control)", is_assignable("x", Annotated[type[int], "m"]), False)
t.check("is_assignable(['x'], list[type[int | None]])  (nested)", is_assignable(["x"], list[type[Union[int, None]]]), False)

print("checker:")
CODE = """
    from typing import Annotated, Optional, Type

    def want(x: Type[Optional[int]]) -> None: pass

    def capybara():
        a: type[None] = 1
        b: type[int | None] = "x"
        c: type[Annotated[int, "m"]] = "x"
        d: type[int] = "x"
        want("x")
"""
errors = run_checker(CODE)
for e in errors:
    print("   ", e)
lines = {e[0] for e in errors if e[1].startswith("incompatible")}
t.check("`a: type[None] = 1` diagnosed", line_of(CODE, "a: type[None]") in lines, True)
t.check("`b: type[int | None] = 'x'` diagnosed", line_of(CODE, "b: type[int | None]") in lines, True)
t.check("`c: type[Annotated[int, 'm']] = 'x'` diagnosed", line_of(CODE, "c: type[Annotated") in lines, True)
t.check("`d: type[int] = 'x'` diagnosed (control)", line_of(CODE, "d: type[int]") in lines, True)
t.check("`want('x')` with `x: Type[Optional[int]]` diagnosed", line_of(CODE, 'want("x")') in lines, True)
t.finish()
