"""Shared helpers for the C03 defect scripts (run from inside the worktree)."""
import contextlib
import io
import os
import sys
import textwrap

sys.path.insert(0, os.getcwd())

import pyanalyze  # noqa: E402

print("pyanalyze imported from", pyanalyze.__file__)


def line_of(code, needle):
    """1-based line number (after dedent) of the unique line containing needle."""
    hits = [
        i
        for i, line in enumerate(textwrap.dedent(code).splitlines(), start=1)
        if needle in line
    ]
    assert len(hits) == 1, (needle, hits)
    return hits[0]


def run_checker(code):
    """Run the pyanalyze checker on a snippet, return [(lineno, code, first line)]."""
    from pyanalyze.test_name_check_visitor import TestNameCheckVisitorBase

    code = textwrap.dedent(code)
    buf = io.StringIO()
    with contextlib.redirect_stdout(buf), contextlib.redirect_stderr(buf):
        errors = TestNameCheckVisitorBase()._run_str(code, fail_after_first=False)
    return [
        (e["lineno"], e["code"].name, e["message"].strip().splitlines()[0])
        for e in errors
    ]


class Tally:
    def __init__(self):
        self.violations = 0

    def check(self, label, observed, required):
        bad = observed != required
        if bad:
            self.violations += 1
        print(
            f"  {label}: pyanalyze says {observed!r}, property requires {required!r}"
            f"{'   <-- VIOLATION' if bad else ''}"
        )

    def finish(self):
        if self.violations:
            print(f"REPRODUCED: {self.violations} violation(s)")
            sys.exit(1)
        print("not reproduced")
        sys.exit(0)
