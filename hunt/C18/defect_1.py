"""C18 defect 1: `disable_all` is never type-checked.

A non-boolean value is neither rejected nor treated consistently: truthy junk
such as the *string* "false" silently disables every check, while falsy junk
(0, [], {}) is silently ignored.
Run: cd /tmp/hunt/C18 && /venv/bin/python /tmp/hunt/out/C18/defect_1.py
"""
import os
import sys
import tempfile

sys.path.insert(0, os.getcwd())
from pathlib import Path

import pyanalyze.name_check_visitor  # noqa: F401  (registers all options)
from pyanalyze.error_code import ErrorCode
from pyanalyze.options import InvalidConfigOption, Options


def load(text):
    with tempfile.TemporaryDirectory() as d:
        p = Path(d) / "pyproject.toml"
        p.write_text(text)
        return Options.from_option_list(config_file_path=p)


violations = 0
# control: a wrongly typed ordinary boolean option *is* rejected
try:
    load('[tool.pyanalyze]\nundefined_name = "false"\n')
    print('control: undefined_name = "false" accepted ?!')
except InvalidConfigOption as e:
    print("control: undefined_name = \"false\" ->", e)

for raw in ['"false"', '"no"', "1", "2", "0", "[]", "{}", "0.5"]:
    cfg = f"[tool.pyanalyze]\ndisable_all = {raw}\n"
    try:
        opts = load(cfg)
    except InvalidConfigOption as e:
        print(f"disable_all = {raw}: rejected ({e})  [OK]")
        continue
    enabled = opts.is_error_code_enabled(ErrorCode.undefined_name)
    print(
        f"disable_all = {raw}: ACCEPTED without error; undefined_name enabled ="
        f" {enabled}"
    )
    violations += 1

print()
print(
    "required: a wrong value type is rejected with a configuration error"
    " (InvalidConfigOption), as for every other option"
)
print(f"observed: {violations} wrongly typed values accepted;")
print('          in particular disable_all = "false" turns every check OFF')
sys.exit(1 if violations else 0)
