"""C18 defect 4: disable_all does not disable error codes registered by plugins.

_parse_config_section snapshots the set of error codes (a) through an
lru_cache and (b) before the section's keys are processed.  A plugin module
that is imported *by the config itself* (e.g. through known_attribute_hook =
["plugin.hook"]) and registers its own error code with
pyanalyze.error_code.register_error_code is therefore invisible to
disable_all - in this parse and, because of the cache, in every later parse in
the same process.
Run: cd /tmp/hunt/C18 && /venv/bin/python /tmp/hunt/out/C18/defect_4.py
"""
import os
import sys
import tempfile

sys.path.insert(0, os.getcwd())
from pathlib import Path

import pyanalyze.name_check_visitor  # noqa: F401
from pyanalyze.error_code import ErrorCode
from pyanalyze.options import Options

PLUGIN = '''\
from pyanalyze.error_code import register_error_code

MY_CODE = register_error_code("c18_plugin_code", "check defined by a plugin")


def hook(obj, attr):
    return None
'''
CONFIG = """\
[tool.pyanalyze]
disable_all = true
known_attribute_hook = ["c18_plugin_mod.hook"]
"""

with tempfile.TemporaryDirectory() as d:
    (Path(d) / "c18_plugin_mod.py").write_text(PLUGIN)
    (Path(d) / "pyproject.toml").write_text(CONFIG)
    sys.path.insert(1, d)
    first = Options.from_option_list(config_file_path=Path(d) / "pyproject.toml")
    second = Options.from_option_list(config_file_path=Path(d) / "pyproject.toml")

code = ErrorCode.c18_plugin_code
r_builtin = first.is_error_code_enabled(ErrorCode.undefined_name)
r1 = first.for_module(("some", "module")).is_error_code_enabled(code)
r2 = second.for_module(("some", "module")).is_error_code_enabled(code)
print("config:\n" + CONFIG)
print("undefined_name enabled          :", r_builtin, "(expected False)")
print("c18_plugin_code enabled, parse 1:", r1, "(expected False)")
print("c18_plugin_code enabled, parse 2:", r2, "(expected False; plugin already imported)")
print()
print(
    "required: with disable_all = true at top level and no explicit"
    " `c18_plugin_code = true` anywhere, every error code - including ones"
    " registered through register_error_code - is disabled for every module"
)
print("observed: the plugin's error code stays enabled")
sys.exit(1 if (r1 or r2) else 0)
