"""C18 defect 3: integer options accept TOML booleans.

IntegerOption.parse uses isinstance(data, int); bool is a subclass of int, so
`union_simplification_limit = true` is accepted and the effective value of the
integer option is the object True (False for `false`, i.e. limit 0).
Run: cd /tmp/hunt/C18 && /venv/bin/python /tmp/hunt/out/C18/defect_3.py
"""
import os
import sys
import tempfile

sys.path.insert(0, os.getcwd())
from pathlib import Path

import pyanalyze.name_check_visitor  # noqa: F401
from pyanalyze.options import ConfigOption, InvalidConfigOption, Options

violations = 0
for name in [
    "union_simplification_limit",
    "comprehension_length_inference_limit",
    "maximum_positional_args",
]:
    for raw in ["true", "false"]:
        with tempfile.TemporaryDirectory() as d:
            p = Path(d) / "pyproject.toml"
            p.write_text(f"[tool.pyanalyze]\n{name} = {raw}\n")
            try:
                opts = Options.from_option_list(config_file_path=p)
            except InvalidConfigOption as e:
                print(f"{name} = {raw}: rejected ({e})  [OK]")
                continue
        val = opts.get_value_for(ConfigOption.registry[name])
        print(f"{name} = {raw}: ACCEPTED, effective value = {val!r}")
        violations += 1

# the symmetric case is rejected, showing that the type check is intended
with tempfile.TemporaryDirectory() as d:
    p = Path(d) / "pyproject.toml"
    p.write_text("[tool.pyanalyze]\nfor_loop_always_entered = 1\n")
    try:
        Options.from_option_list(config_file_path=p)
        print("control: for_loop_always_entered = 1 accepted")
    except InvalidConfigOption as e:
        print("control (bool option given an int):", e)

print()
print("required: wrong value types are rejected with a configuration error")
print(f"observed: {violations} boolean values accepted for integer options")
sys.exit(1 if violations else 0)
