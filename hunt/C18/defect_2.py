"""C18 defect 2: `extend_config` inside an [[overrides]] entry is accepted.

The nested key is not rejected, and the included file is applied to *all*
modules (module scoping of the override is dropped), at the same priority as a
top-level include.
Run: cd /tmp/hunt/C18 && /venv/bin/python /tmp/hunt/out/C18/defect_2.py
"""
import os
import sys
import tempfile

sys.path.insert(0, os.getcwd())
from pathlib import Path

import pyanalyze.name_check_visitor  # noqa: F401
from pyanalyze.error_code import ErrorCode
from pyanalyze.name_check_visitor import UnionSimplificationLimit
from pyanalyze.options import InvalidConfigOption, Options

MAIN = """\
[tool.pyanalyze]

[[tool.pyanalyze.overrides]]
module = "pkg.a"
extend_config = "other.toml"
"""
OTHER = """\
[tool.pyanalyze]
undefined_name = false
union_simplification_limit = 3
"""

with tempfile.TemporaryDirectory() as d:
    (Path(d) / "pyproject.toml").write_text(MAIN)
    (Path(d) / "other.toml").write_text(OTHER)
    try:
        opts = Options.from_option_list(config_file_path=Path(d) / "pyproject.toml")
    except InvalidConfigOption as e:
        print("rejected:", e)
        print("OK - nested extend_config is a configuration error")
        sys.exit(0)

print("pyanalyze accepted extend_config nested in the override for module pkg.a")
bad = False
for mod in [("pkg", "a"), ("pkg", "b"), ("unrelated",), ()]:
    o = opts.for_module(mod)
    un = o.is_error_code_enabled(ErrorCode.undefined_name)
    lim = o.get_value_for(UnionSimplificationLimit)
    print(f"  module {'.'.join(mod) or '<top>'}: undefined_name={un} limit={lim}")
    if mod[:2] != ("pkg", "a") and (un is False or lim == 3):
        bad = True
print()
print(
    "required: an override entry may only carry `module` plus option values;"
    " a nested inclusion is rejected with InvalidConfigOption (like nested"
    " `overrides`), and in no case may settings written under"
    ' module = "pkg.a" change modules outside pkg.a'
)
print(
    "observed: no error, and other.toml's settings are applied to every module"
    " (pkg.b, unrelated, top level)"
)
sys.exit(1 if bad else 0)
