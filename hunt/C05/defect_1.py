"""C05 defect 1: positional arguments written AFTER a *args of unknown length are
folded into the star-argument, so their number is forgotten and a call that can
never bind is accepted.

Run: cd /tmp/hunt/C05 && /venv/bin/python /tmp/hunt/out/C05/defect_1.py
"""
import contextlib
import io
import os
import sys

sys.path.insert(0, os.getcwd())

from pyanalyze.test_name_check_visitor import TestNameCheckVisitorBase  # noqa: E402

CODE = '''
def f1(a):
    pass

def f2(a, b):
    pass

def f3(a, b=0, /, *, k=0):
    pass

def caller(xs: list[int], t: tuple[int, ...]):
    f2(*xs, 1, 2, 3)       # line 12
    f1(*t, 1, 2)           # line 13
    f2(1, *xs, 2, 3)       # line 14
    f3(*xs, 1, 2, 3, k=1)  # line 15
    f2(1, 2, 3)            # line 16  control: must be (and is) rejected
    f2(*xs, 1)             # line 17  control: binds for len(xs) == 1
'''

# (line, python expression template with the star-argument spelled {s})
CASES = {
    12: "f2(*{s}, 1, 2, 3)",
    13: "f1(*{s}, 1, 2)",
    14: "f2(1, *{s}, 2, 3)",
    15: "f3(*{s}, 1, 2, 3, k=1)",
    16: "f2(1, 2, 3)",
    17: "f2(*{s}, 1)",
}


def pyanalyze_flagged():
    buf = io.StringIO()
    with contextlib.redirect_stdout(buf), contextlib.redirect_stderr(buf):
        errs = TestNameCheckVisitorBase()._run_str(CODE, fail_after_first=False)
    out = {}
    for e in errs:
        if e["code"].name == "incompatible_call":
            out.setdefault(e["lineno"], []).append(e["description"])
    return out


def cpython_binding_lengths(expr):
    """Lengths 0..6 of the star-argument for which CPython binds the call."""
    ns = {}
    exec(CODE, ns)
    ok = []
    for n in range(0, 7):
        try:
            eval(expr.format(s=repr([0] * n)), ns)
            ok.append(n)
        except TypeError:
            pass
    return ok


def main():
    flagged = pyanalyze_flagged()
    violations = 0
    for line, expr in CASES.items():
        binds = cpython_binding_lengths(expr)
        rejected = line in flagged
        print(f"line {line}: {expr.format(s='t' if line == 13 else 'xs')}")
        print(f"   CPython binds for star-argument lengths: {binds or 'NONE (always TypeError)'}")
        print(f"   pyanalyze: {'incompatible_call ' + str(flagged[line]) if rejected else 'accepted (no diagnostic)'}")
        if not rejected and not binds:
            print("   VIOLATION: accepted although no expansion of the star-argument binds;")
            print("   property requires: accepted => some concrete expansion binds")
            violations += 1
    print()
    if violations:
        print(f"{violations} violating call(s): defect reproduces")
        return 1
    print("no violation")
    return 0


if __name__ == "__main__":
    sys.exit(main())
