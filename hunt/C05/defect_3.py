"""C05 defect 3: when a class is called, the first parameter (self / cls) of its
__init__ / __new__ is dropped from the signature *by name* as well as by
position, so a keyword argument called 'self' (or 'cls') is swallowed by
**kwargs.  CPython raises "got multiple values for argument 'self'" while
binding.  The same keyword on a bound-method call IS reported, so only the
constructor path is affected.

Run: cd /tmp/hunt/C05 && /venv/bin/python /tmp/hunt/out/C05/defect_3.py
"""
import contextlib
import io
import os
import sys

sys.path.insert(0, os.getcwd())

from pyanalyze.test_name_check_visitor import TestNameCheckVisitorBase  # noqa: E402

CODE = '''
class A:
    def __init__(self, **kw):
        pass

    def m(self, **kw):
        pass

class B:
    def __new__(cls, **kw):
        return object.__new__(cls)

class C:
    def __init__(self, a=0, **kw):
        pass

def caller():
    A(self=1)            # line 18
    A(**{'self': 1})     # line 19
    B(cls=1)             # line 20
    C(1, self=2)         # line 21
    A().m(self=1)        # line 22  control: same shape on a bound method, rejected
    A(x=1)               # line 23  control: binds
'''

CASES = {
    18: "A(self=1)",
    19: "A(**{'self': 1})",
    20: "B(cls=1)",
    21: "C(1, self=2)",
    22: "A().m(self=1)",
    23: "A(x=1)",
}


def pyanalyze_flagged():
    buf = io.StringIO()
    with contextlib.redirect_stdout(buf), contextlib.redirect_stderr(buf):
        errs = TestNameCheckVisitorBase()._run_str(CODE, fail_after_first=False)
    out = {}
    for e in errs:
        if e["code"].name == "incompatible_call":
            out.setdefault(e["lineno"], []).append(e["description"])
    return out


def main():
    flagged = pyanalyze_flagged()
    ns = {}
    exec(CODE, ns)
    violations = 0
    for line, expr in CASES.items():
        try:
            eval(expr, ns)
            cpython = None
        except TypeError as e:
            cpython = str(e)
        rejected = line in flagged
        print(f"line {line}: {expr}")
        print(f"   CPython:   {'binds' if cpython is None else 'TypeError: ' + cpython}")
        print(f"   pyanalyze: {'incompatible_call ' + str(flagged[line]) if rejected else 'accepted (no diagnostic)'}")
        if rejected != (cpython is not None):
            print("   VIOLATION: property requires incompatible_call <=> TypeError at bind time")
            violations += 1
    print()
    if violations:
        print(f"{violations} violating call(s): defect reproduces")
        return 1
    print("no violation")
    return 0


if __name__ == "__main__":
    sys.exit(main())
