"""C05 defect 4: for functions whose signature is read from the runtime object
(module-level functions, methods), a parameter whose name starts with a double
underscore is turned into a positional-only parameter, AND every parameter in
front of it is made positional-only too (PEP 484 legacy convention, applied in
ArgSpecCache._make_sig_parameter / from_signature).  CPython knows no such
rule, so
  * valid keyword calls are reported (false incompatible_call), and
  * with a **kwargs parameter, calls that CPython rejects with "multiple
    values for argument" are accepted, because the keyword is routed into
    **kwargs instead of colliding with the positional.
The identical def nested inside a function (signature built from the AST by
functions.compute_parameters) is NOT given this treatment, so the same call is
judged differently depending on where the def stands.
The runtime-path behaviour is asserted by test_arg_spec.py::test_positional_only.

Run: cd /tmp/hunt/C05 && /venv/bin/python /tmp/hunt/out/C05/defect_4.py
"""
import contextlib
import io
import os
import sys

sys.path.insert(0, os.getcwd())

from pyanalyze.test_name_check_visitor import TestNameCheckVisitorBase  # noqa: E402

CODE = '''
def f(a, __b):
    pass

def h(a, __b=0, **kw):
    pass

def caller():
    f(1, __b=2)        # line 9   CPython binds
    f(a=1, __b=2)      # line 10  CPython binds
    h(a=1)             # line 11  CPython binds
    h(1, a=2)          # line 12  CPython: multiple values for 'a'
    h(1, 2, __b=3)     # line 13  CPython: multiple values for '__b'
    def g(a, __b):
        pass
    g(a=1, __b=2)      # line 16  same def as f, nested: accepted
    f(1, 2)            # line 17  control
'''

CASES = {
    9: "f(1, __b=2)",
    10: "f(a=1, __b=2)",
    11: "h(a=1)",
    12: "h(1, a=2)",
    13: "h(1, 2, __b=3)",
    16: "f(a=1, __b=2)",  # g has the same signature as f
    17: "f(1, 2)",
}
LABEL = {16: "g(a=1, __b=2)   [g nested, same signature as f]"}


def pyanalyze_flagged():
    buf = io.StringIO()
    with contextlib.redirect_stdout(buf), contextlib.redirect_stderr(buf):
        errs = TestNameCheckVisitorBase()._run_str(CODE, fail_after_first=False)
    out = {}
    for e in errs:
        if e["code"].name == "incompatible_call":
            out.setdefault(e["lineno"], []).append(e["description"])
    return out


def main():
    flagged = pyanalyze_flagged()
    ns = {}
    exec(CODE, ns)
    violations = 0
    for line, expr in CASES.items():
        try:
            eval(expr, ns)
            cpython = None
        except TypeError as e:
            cpython = str(e)
        rejected = line in flagged
        print(f"line {line}: {LABEL.get(line, expr)}")
        print(f"   CPython:   {'binds' if cpython is None else 'TypeError: ' + cpython}")
        print(f"   pyanalyze: {'incompatible_call ' + str(flagged[line]) if rejected else 'accepted (no diagnostic)'}")
        if rejected != (cpython is not None):
            print("   VIOLATION: property requires incompatible_call <=> TypeError at bind time")
            violations += 1
    print()
    if violations:
        print(f"{violations} violating call(s): defect reproduces")
        return 1
    print("no violation")
    return 0


if __name__ == "__main__":
    sys.exit(main())
