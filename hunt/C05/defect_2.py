"""C05 defect 2: a tuple/list literal with a starred tail passed as *args,
f(*(1, 2, *xs)), loses its statically known prefix: the whole literal is
treated as "unknown number of elements", so a call that needs at most one
positional argument is accepted although at least two are always passed.

Run: cd /tmp/hunt/C05 && /venv/bin/python /tmp/hunt/out/C05/defect_2.py
"""
import contextlib
import io
import os
import sys

sys.path.insert(0, os.getcwd())

from pyanalyze.test_name_check_visitor import TestNameCheckVisitorBase  # noqa: E402

CODE = '''
def f1(a):
    pass

def f2(a, b=0):
    pass

def caller(xs: list[int]):
    f1(*(1, 2, *xs))        # line 9
    f2(*[1, 2, 3, *xs])     # line 10
    t = (1, 2, *xs)
    f1(*t)                  # line 12
    f1(*(*xs, 1, 2))        # line 13
    f1(*(1, 2))             # line 14  control: rejected
    f1(*(1, *xs))           # line 15  control: binds for xs == []
'''

CASES = {
    9: "f1(*(1, 2, *{s}))",
    10: "f2(*[1, 2, 3, *{s}])",
    12: "f1(*(1, 2, *{s}))",
    13: "f1(*(*{s}, 1, 2))",
    14: "f1(*(1, 2))",
    15: "f1(*(1, *{s}))",
}


def pyanalyze_flagged():
    buf = io.StringIO()
    with contextlib.redirect_stdout(buf), contextlib.redirect_stderr(buf):
        errs = TestNameCheckVisitorBase()._run_str(CODE, fail_after_first=False)
    out = {}
    for e in errs:
        if e["code"].name == "incompatible_call":
            out.setdefault(e["lineno"], []).append(e["description"])
    return out


def cpython_binding_lengths(expr):
    ns = {}
    exec(CODE, ns)
    ok = []
    for n in range(0, 7):
        try:
            eval(expr.format(s=repr([0] * n)), ns)
            ok.append(n)
        except TypeError:
            pass
    return ok


def main():
    flagged = pyanalyze_flagged()
    violations = 0
    for line, expr in CASES.items():
        binds = cpython_binding_lengths(expr)
        rejected = line in flagged
        print(f"line {line}: {expr.format(s='xs')}")
        print(f"   CPython binds for len(xs) in: {binds or 'NONE (always TypeError)'}")
        print(f"   pyanalyze: {'incompatible_call ' + str(flagged[line]) if rejected else 'accepted (no diagnostic)'}")
        if not rejected and not binds:
            print("   VIOLATION: accepted although no expansion binds;")
            print("   property requires: accepted => some concrete expansion binds")
            violations += 1
    print()
    if violations:
        print(f"{violations} violating call(s): defect reproduces")
        return 1
    print("no violation")
    return 0


if __name__ == "__main__":
    sys.exit(main())
