"""C16 defect 2: get_line_range_for_node leaves the last physical line of a multi-line statement out of the replaced range unless an indentation heuristic happens to re-add it; the fix then leaves that line behind (file no longer parses / stray code).

Run: cd /tmp/hunt/C16 && /venv/bin/python /tmp/hunt/out/C16/defect_2.py
"""
import ast
import contextlib
import io
import os
import sys
import textwrap

sys.path.insert(0, os.getcwd())

import pyanalyze  # noqa: E402
from pyanalyze.error_code import ErrorCode  # noqa: E402
from pyanalyze.test_name_check_visitor import TestNameCheckVisitorBase  # noqa: E402

print("pyanalyze imported from", pyanalyze.__file__)
_T = TestNameCheckVisitorBase()


def fix_once(code, **kwargs):
    """One check + apply pass, exactly what assert_is_changed does
    (check_for_test(apply_changes=True)). Returns (diagnostics, new_text)."""
    with contextlib.redirect_stderr(io.StringIO()):
        res, new = _T._run_str(code, apply_changes=True, fail_after_first=False, **kwargs)
    return [(r.get("lineno"), r["code"].name, r["description"]) for r in res], new


def parses(text):
    try:
        ast.parse(text)
        return True
    except SyntaxError as e:
        print("   SyntaxError:", e)
        return False


def banner(title):
    print("=" * 72)
    print(title)
    print("=" * 72)


def show(label, text):
    print(f"--- {label}")
    print(textwrap.indent(text.rstrip("\n"), "    | "))


def load(text, name):
    ns = {}
    exec(compile(text, "<fixed>", "exec"), ns)
    return ns[name]

from pyanalyze.analysis_lib import get_line_range_for_node  # noqa: E402

violations = []

# ---------------------------------------------------------------- kernel
banner("0. kernel: get_line_range_for_node on a 3-line statement")
SRC_0 = 'def usage(prog):\n    return """\nusage: {prog} [options]\n""".strip()\n'
tree = ast.parse(SRC_0)
stmt = tree.body[0].body[0]
rng = get_line_range_for_node(stmt, SRC_0.splitlines(keepends=True))
print(f"statement spans lines {stmt.lineno}..{stmt.end_lineno}; get_line_range_for_node -> {rng}")
print(f"required: {list(range(stmt.lineno, stmt.end_lineno + 1))}")
if rng != list(range(stmt.lineno, stmt.end_lineno + 1)):
    violations.append(f"0: line range {rng} omits line {stmt.end_lineno}")

# ---------------------------------------------------------------- case A
banner('A. missing_f fix on a triple-quoted string closed by `""".strip()` at column 0')
diags, out = fix_once(SRC_0)
show("input", SRC_0)
print("diagnostics:", diags)
show("after applying the proposed replacement", out)
print("required: file still parses and the old closing line is gone")
if out != SRC_0 and not parses(out):
    violations.append("A: fixed file does not parse (old last line left behind)")

# ---------------------------------------------------------------- case B
banner("B. unused_variable fix on a backslash-continued assignment")
SRC_B = '''def total(a, b):
    unused = a + \\
    b.pop()
    return a
'''
diags, out = fix_once(SRC_B)
show("input", SRC_B)
print("diagnostics:", diags)
show("after applying the proposed replacement", out)
print("required: the whole two-line assignment is removed; here its second line survives")
print("          as a new stand-alone statement `b.pop()`")
if out != SRC_B and "b.pop()" in out:
    violations.append("B: tail line of the removed statement left behind as a statement")

# ---------------------------------------------------------------- case C
banner("C. use_fstrings fix, closing part of the expression on a line not indented deeper")
SRC_C = '''def label(x):
    return ("item %s" % x
    ).upper(
    )
'''
# (closing-bracket lines ARE handled by the heuristic -> expected to be fine; contrast with D)
diags, out = fix_once(SRC_C, settings={ErrorCode.use_fstrings: True})
show("input", SRC_C)
show("after applying the proposed replacement", out)
print("(bracket-only tail lines are rescued by the heuristic; parses:", parses(out), ")")

banner("D. same, but the tail line starts with an operand instead of a bracket")
SRC_D = '''def label(x, suffix):
    return "item %s" % x + \\
    suffix
'''
diags, out = fix_once(SRC_D, settings={ErrorCode.use_fstrings: True})
show("input", SRC_D)
print("diagnostics:", diags)
show("after applying the proposed replacement", out)
ok = parses(out)
if ok:
    n_before = len(ast.parse(SRC_D).body[0].body)
    n_after = len(ast.parse(out).body[0].body)
    print(f"statements in label(): before fix {n_before}; after fix {n_after}")
    print("required: still one statement (only the % expression rewritten)")
    if n_before != n_after:
        violations.append("D: old tail line kept as an extra statement")
elif out != SRC_D:
    violations.append("D: fixed file does not parse")

banner("RESULT")
if violations:
    print("VIOLATION of C16 reproduced:")
    for v in violations:
        print("  -", v)
    sys.exit(1)
print("no violation")
sys.exit(0)
