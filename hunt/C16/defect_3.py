"""C16 defect 3: the use_fstrings fix rewrites "%d" % x to f"{x}" and "%s" % t (t a 1-tuple) to f"{t}", which print different text.

Run: cd /tmp/hunt/C16 && /venv/bin/python /tmp/hunt/out/C16/defect_3.py
"""
import ast
import contextlib
import io
import os
import sys
import textwrap

sys.path.insert(0, os.getcwd())

import pyanalyze  # noqa: E402
from pyanalyze.error_code import ErrorCode  # noqa: E402
from pyanalyze.test_name_check_visitor import TestNameCheckVisitorBase  # noqa: E402

print("pyanalyze imported from", pyanalyze.__file__)
_T = TestNameCheckVisitorBase()


def fix_once(code, **kwargs):
    """One check + apply pass, exactly what assert_is_changed does
    (check_for_test(apply_changes=True)). Returns (diagnostics, new_text)."""
    with contextlib.redirect_stderr(io.StringIO()):
        res, new = _T._run_str(code, apply_changes=True, fail_after_first=False, **kwargs)
    return [(r.get("lineno"), r["code"].name, r["description"]) for r in res], new


def parses(text):
    try:
        ast.parse(text)
        return True
    except SyntaxError as e:
        print("   SyntaxError:", e)
        return False


def banner(title):
    print("=" * 72)
    print(title)
    print("=" * 72)


def show(label, text):
    print(f"--- {label}")
    print(textwrap.indent(text.rstrip("\n"), "    | "))


def load(text, name):
    ns = {}
    exec(compile(text, "<fixed>", "exec"), ns)
    return ns[name]

violations = []
ON = {ErrorCode.use_fstrings: True}


def case(tag, title, src, fname, args):
    banner(f"{tag}. {title}")
    diags, out = fix_once(src, settings=ON)
    show("input", src)
    print("diagnostics:", diags)
    show("after applying the proposed replacement", out)
    if out == src:
        print("no fix proposed")
        return
    if not parses(out):
        violations.append(f"{tag}: fixed file does not parse")
        return
    rediags, _ = fix_once(out, settings=ON)
    print("diagnostics on the fixed file:", rediags)
    before = load(src, fname)(*args)
    after = load(out, fname)(*args)
    print(f"{fname}{args!r} before fix: {before!r}")
    print(f"{fname}{args!r} after  fix: {after!r}")
    print("required: identical results (the fix is advertised as a pure style change)")
    if before != after:
        violations.append(f"{tag}: result changed from {before!r} to {after!r}")


case(
    "A",
    '"%d" applied to a float and a bool',
    '''def report(ratio: float, ok: bool) -> str:
    return "%d items (ok=%d)" % (ratio, ok)
''',
    "report",
    (3.7, True),
)

case(
    "B",
    '"%d" applied to a parameter annotated int, called with a bool (a subclass of int)',
    '''def flag(value: int) -> str:
    return "flag=%d" % value
''',
    "flag",
    (True,),
)

case(
    "C",
    '"%s" % t where t is statically known to be a 1-tuple',
    '''def show_one(t: tuple[int]) -> str:
    return "value: %s" % t
''',
    "show_one",
    ((5,),),
)

banner("RESULT")
if violations:
    print("VIOLATION of C16 reproduced:")
    for v in violations:
        print("  -", v)
    sys.exit(1)
print("no violation")
sys.exit(0)
