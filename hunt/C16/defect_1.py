"""C16 defect 1: a fix rewrites whole physical lines, so statements that merely share the line with the flagged statement are dropped.

Run: cd /tmp/hunt/C16 && /venv/bin/python /tmp/hunt/out/C16/defect_1.py
"""
import ast
import contextlib
import io
import os
import sys
import textwrap

sys.path.insert(0, os.getcwd())

import pyanalyze  # noqa: E402
from pyanalyze.error_code import ErrorCode  # noqa: E402
from pyanalyze.test_name_check_visitor import TestNameCheckVisitorBase  # noqa: E402

print("pyanalyze imported from", pyanalyze.__file__)
_T = TestNameCheckVisitorBase()


def fix_once(code, **kwargs):
    """One check + apply pass, exactly what assert_is_changed does
    (check_for_test(apply_changes=True)). Returns (diagnostics, new_text)."""
    with contextlib.redirect_stderr(io.StringIO()):
        res, new = _T._run_str(code, apply_changes=True, fail_after_first=False, **kwargs)
    return [(r.get("lineno"), r["code"].name, r["description"]) for r in res], new


def parses(text):
    try:
        ast.parse(text)
        return True
    except SyntaxError as e:
        print("   SyntaxError:", e)
        return False


def banner(title):
    print("=" * 72)
    print(title)
    print("=" * 72)


def show(label, text):
    print(f"--- {label}")
    print(textwrap.indent(text.rstrip("\n"), "    | "))


def load(text, name):
    ns = {}
    exec(compile(text, "<fixed>", "exec"), ns)
    return ns[name]

violations = []

# ---------------------------------------------------------------- case A
banner("A. missing_f fix on `if c: return \"...{a}\"` drops the `if c:` guard")
SRC_A = '''def pick(a, c):
    if c: return "v {a}"
    return "other"
'''
diags, out = fix_once(SRC_A)
show("input", SRC_A)
print("diagnostics:", diags)
show("after applying the proposed replacement", out)
ok = parses(out)
before = load(SRC_A, "pick")(1, False)
after = load(out, "pick")(1, False) if ok else None
print(f"pick(1, False) before fix: {before!r}; after fix: {after!r}")
print("required: only the string literal becomes an f-string; pick(1, False) stays 'other'")
if out != SRC_A and (not ok or before != after):
    violations.append("A: conditional return became unconditional")

# ---------------------------------------------------------------- case B
banner("B. unused_variable fix on `unused = 1; log.append(...)` deletes the second statement")
SRC_B = '''def record(log):
    unused = 1; log.append("kept")
    return log
'''
diags, out = fix_once(SRC_B)
show("input", SRC_B)
print("diagnostics:", diags)
show("after applying the proposed replacement", out)
ok = parses(out)
before = load(SRC_B, "record")([])
after = load(out, "record")([]) if ok else None
print(f"record([]) before fix: {before!r}; after fix: {after!r}")
print("required: only the assignment to `unused` disappears; record([]) stays ['kept']")
if out != SRC_B and (not ok or before != after):
    violations.append("B: sibling statement on the same line deleted")

# ---------------------------------------------------------------- case C
banner("C. missing_f fix on the 2nd statement of `a; b` deletes the 1st statement")
SRC_C = '''def greet(name, log):
    log.append("called"); return "hello {name}"
'''
diags, out = fix_once(SRC_C)
show("input", SRC_C)
print("diagnostics:", diags)
show("after applying the proposed replacement", out)
ok = parses(out)
l1, l2 = [], []
load(SRC_C, "greet")("x", l1)
if ok:
    load(out, "greet")("x", l2)
print(f"log after greet() before fix: {l1!r}; after fix: {l2!r}")
if out != SRC_C and (not ok or l1 != l2):
    violations.append("C: preceding statement on the same line deleted")

banner("RESULT")
if violations:
    print("VIOLATION of C16 reproduced:")
    for v in violations:
        print("  -", v)
    sys.exit(1)
print("no violation")
sys.exit(0)
