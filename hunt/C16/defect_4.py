"""C16 defect 4: a fix located in the header of a decorated def/class (decorator argument, default value) re-emits the decorators without removing the old ones: decorators are duplicated, the diagnostic stays, and fix-apply-recheck never reaches a fixpoint.

Run: cd /tmp/hunt/C16 && /venv/bin/python /tmp/hunt/out/C16/defect_4.py
"""
import ast
import contextlib
import io
import os
import sys
import textwrap

sys.path.insert(0, os.getcwd())

import pyanalyze  # noqa: E402
from pyanalyze.error_code import ErrorCode  # noqa: E402
from pyanalyze.test_name_check_visitor import TestNameCheckVisitorBase  # noqa: E402

print("pyanalyze imported from", pyanalyze.__file__)
_T = TestNameCheckVisitorBase()


def fix_once(code, **kwargs):
    """One check + apply pass, exactly what assert_is_changed does
    (check_for_test(apply_changes=True)). Returns (diagnostics, new_text)."""
    with contextlib.redirect_stderr(io.StringIO()):
        res, new = _T._run_str(code, apply_changes=True, fail_after_first=False, **kwargs)
    return [(r.get("lineno"), r["code"].name, r["description"]) for r in res], new


def parses(text):
    try:
        ast.parse(text)
        return True
    except SyntaxError as e:
        print("   SyntaxError:", e)
        return False


def banner(title):
    print("=" * 72)
    print(title)
    print("=" * 72)


def show(label, text):
    print(f"--- {label}")
    print(textwrap.indent(text.rstrip("\n"), "    | "))


def load(text, name):
    ns = {}
    exec(compile(text, "<fixed>", "exec"), ns)
    return ns[name]

violations = []

# ---------------------------------------------------------------- case A
banner("A. missing_f inside a decorator argument; iterate fix-apply-recheck")
SRC_A = '''prefix = "app"
calls = []

def register(name):
    def deco(fn):
        calls.append(name)
        return fn
    return deco

@register("{prefix}.handler")
def handler():
    return 1
'''
text = SRC_A
show("input", text)
history = []
for i in range(4):
    diags, new = fix_once(text)
    n_deco = len(ast.parse(text).body[-1].decorator_list)
    history.append((n_deco, [d[1] for d in diags]))
    print(f"iteration {i}: decorators on handler = {n_deco}; diagnostics = {diags}")
    if new == text:
        print("fixpoint reached")
        break
    if not parses(new):
        violations.append("A: fixed file does not parse")
        break
    text = new
show("file after the iterations", text)
ns = {}
exec(compile(text, "<fixed>", "exec"), ns)
print("register() calls recorded when importing the fixed module:", ns["calls"])
print("required: after ONE application the file has a single @register(f'{prefix}.handler'),")
print("          the missing_f diagnostic is gone and the next iteration changes nothing")
final_decos = len(ast.parse(text).body[-1].decorator_list)
if final_decos != 1:
    violations.append(f"A: handler now carries {final_decos} decorators (was 1); missing_f still reported each round")

# ---------------------------------------------------------------- case B
banner("B. missing_f in a default value of a decorated function")
SRC_B = '''import functools
sep = ", "

@functools.lru_cache(maxsize=None)
def join(a, b, template="{sep}"):
    return a + template + b
'''
diags, out = fix_once(SRC_B)
show("input", SRC_B)
print("diagnostics:", diags)
show("after applying the proposed replacement", out)
if parses(out):
    n = len(ast.parse(out).body[-1].decorator_list)
    print("decorators on join after the fix:", n, "(required: 1)")
    if n != 1:
        violations.append(f"B: lru_cache applied {n} times after the fix")
else:
    violations.append("B: fixed file does not parse")

# ---------------------------------------------------------------- case C
banner("C. same for a decorated class (missing_f in a class keyword)")
SRC_C = '''import dataclasses
tag = "t"

class Meta(type):
    def __new__(mcs, name, bases, ns, label=""):
        return super().__new__(mcs, name, bases, ns)

def noisy(cls):
    print("   noisy() applied to", cls.__name__)
    return cls

@noisy
class Thing(metaclass=Meta, label="{tag}"):
    pass
'''
diags, out = fix_once(SRC_C)
print("diagnostics:", diags)
show("after applying the proposed replacement", out)
if out != SRC_C and parses(out):
    n = len(ast.parse(out).body[-1].decorator_list)
    print("decorators on Thing after the fix:", n, "(required: 1)")
    if n != 1:
        violations.append(f"C: class decorator applied {n} times after the fix")

banner("RESULT")
if violations:
    print("VIOLATION of C16 reproduced:")
    for v in violations:
        print("  -", v)
    sys.exit(1)
print("no violation")
sys.exit(0)
