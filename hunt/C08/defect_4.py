import contextlib
import io
import os
import re
import sys
import textwrap

sys.path.insert(0, os.getcwd())

import pyanalyze  # noqa: E402
from pyanalyze.test_name_check_visitor import TestNameCheckVisitorBase  # noqa: E402


def check(code):
    """Run pyanalyze on a snippet; return {lineno: [(error_code, first line of message)]}."""
    code = textwrap.dedent(code)
    buf = io.StringIO()
    with contextlib.redirect_stdout(buf), contextlib.redirect_stderr(buf):
        errors = TestNameCheckVisitorBase()._run_str(code, fail_after_first=False)
    out = {}
    for e in errors:
        desc = e["description"]
        if e["code"].name == "internal_error":
            first = [ln for ln in desc.splitlines() if ln.strip()][-1]
        else:
            first = desc.splitlines()[0]
        first = re.sub(r"<test input [0-9a-f]+>\.", "", first)
        out.setdefault(e["lineno"], []).append((e["code"].name, first))
    return out, code.splitlines()


def report(code):
    res, lines = check(code)
    rows = {}
    for lineno in sorted(res):
        src = lines[lineno - 1].strip()
        revealed = [m for c, m in res[lineno] if c == "reveal_type"]
        diags = [(c, m) for c, m in res[lineno] if c != "reveal_type"]
        typ = None
        if revealed:
            typ = re.search(r"Revealed type is .(.*).$", revealed[0]).group(1)
        rows[src] = (typ, diags)
    return rows


print("pyanalyze imported from", pyanalyze.__file__)

CODE = '''
from typing import Union, overload

class R0: pass
class R1: pass

@overload
def f(*args: int) -> R0: ...
@overload
def f(*args: object) -> R1: ...
def f(*args): raise NotImplementedError

@overload
def g(*args: int) -> R0: ...
@overload
def g(*args: str) -> R1: ...
def g(*args): raise NotImplementedError

@overload
def k(**kw: int) -> R0: ...
@overload
def k(**kw: str) -> R1: ...
def k(**kw): raise NotImplementedError

# control: the same thing with an ordinary parameter works
@overload
def p(x: int) -> R0: ...
@overload
def p(x: str) -> R1: ...
def p(x): raise NotImplementedError

def capybara(i: int, s: str, u: Union[int, str]):
    reveal_type(f(i))
    reveal_type(f(s))
    reveal_type(f(u))
    reveal_type(g(i))
    reveal_type(g(s))
    reveal_type(g(u))
    reveal_type(k(a=i))
    reveal_type(k(a=s))
    reveal_type(k(a=u))
    reveal_type(p(u))
'''

rows = report(CODE)
for src, (typ, diags) in rows.items():
    print(f"{src:24} -> type {typ!r}, diagnostics {diags}")

print()
print("Property: one argument is the union int | str. Member calls: f(int) -> R0, f(str) -> R1,")
print("so f(u) must contain R0 and R1; g(u) and k(a=u) must be accepted (R0 | R1) because every")
print("member is accepted by some overload.")
bad = []
typ, diags = rows["reveal_type(f(u))"]
if diags or typ is None or "R0" not in typ.split(" | "):
    bad.append(("f(u)", typ, diags))
for call in ("reveal_type(g(u))", "reveal_type(k(a=u))"):
    typ, diags = rows[call]
    if diags:
        bad.append((call, typ, diags))
if bad:
    print("VIOLATION reproduced:")
    for b in bad:
        print("  ", b)
    sys.exit(1)
print("no violation")
sys.exit(0)
