import contextlib
import io
import os
import re
import sys
import textwrap

sys.path.insert(0, os.getcwd())

import pyanalyze  # noqa: E402
from pyanalyze.test_name_check_visitor import TestNameCheckVisitorBase  # noqa: E402


def check(code):
    """Run pyanalyze on a snippet; return {lineno: [(error_code, first line of message)]}."""
    code = textwrap.dedent(code)
    buf = io.StringIO()
    with contextlib.redirect_stdout(buf), contextlib.redirect_stderr(buf):
        errors = TestNameCheckVisitorBase()._run_str(code, fail_after_first=False)
    out = {}
    for e in errors:
        desc = e["description"]
        if e["code"].name == "internal_error":
            first = [ln for ln in desc.splitlines() if ln.strip()][-1]
        else:
            first = desc.splitlines()[0]
        first = re.sub(r"<test input [0-9a-f]+>\.", "", first)
        out.setdefault(e["lineno"], []).append((e["code"].name, first))
    return out, code.splitlines()


def report(code):
    res, lines = check(code)
    rows = {}
    for lineno in sorted(res):
        src = lines[lineno - 1].strip()
        revealed = [m for c, m in res[lineno] if c == "reveal_type"]
        diags = [(c, m) for c, m in res[lineno] if c != "reveal_type"]
        typ = None
        if revealed:
            typ = re.search(r"Revealed type is .(.*).$", revealed[0]).group(1)
        rows[src] = (typ, diags)
    return rows


print("pyanalyze imported from", pyanalyze.__file__)

CODE = '''
import os
from typing import List, TypeVar, Union, overload

T = TypeVar("T")

@overload
def f(x: List[T]) -> T: ...
@overload
def f(x: str) -> str: ...
def f(x): raise NotImplementedError

# the same two overloads in the opposite order
@overload
def g(x: str) -> str: ...
@overload
def g(x: List[T]) -> T: ...
def g(x): raise NotImplementedError

def capybara(li: List[int], s: str, u: Union[List[int], str]):
    reveal_type(f(li))
    reveal_type(f(s))
    reveal_type(f(u))
    reveal_type(g(u))

def stdlib(p: Union[str, "os.PathLike[str]"], s: str, q: "os.PathLike[str]"):
    reveal_type(os.path.basename(s))
    reveal_type(os.path.basename(q))
    reveal_type(os.path.basename(p))
'''

rows = report(CODE)
for src, (typ, diags) in rows.items():
    print(f"{src:36} -> type {typ!r}, diagnostics {diags}")

print()
print("Property: exactly one argument is a union; each member is accepted by some overload")
print("(f(List[int]) -> int, f(str) -> str), so f(u) must be accepted with type int | str,")
print("exactly as g(u) is. Same for os.path.basename(str | PathLike[str]) -> str.")
bad = []
for call in ("reveal_type(f(u))", "reveal_type(os.path.basename(p))"):
    typ, diags = rows[call]
    if diags:
        bad.append((call, typ, diags))
if bad:
    print("VIOLATION reproduced (call rejected):")
    for b in bad:
        print("  ", b)
    sys.exit(1)
print("no violation")
sys.exit(0)
