import contextlib
import io
import os
import re
import sys
import textwrap

sys.path.insert(0, os.getcwd())

import pyanalyze  # noqa: E402
from pyanalyze.test_name_check_visitor import TestNameCheckVisitorBase  # noqa: E402


def check(code):
    """Run pyanalyze on a snippet; return {lineno: [(error_code, first line of message)]}."""
    code = textwrap.dedent(code)
    buf = io.StringIO()
    with contextlib.redirect_stdout(buf), contextlib.redirect_stderr(buf):
        errors = TestNameCheckVisitorBase()._run_str(code, fail_after_first=False)
    out = {}
    for e in errors:
        desc = e["description"]
        if e["code"].name == "internal_error":
            first = [ln for ln in desc.splitlines() if ln.strip()][-1]
        else:
            first = desc.splitlines()[0]
        first = re.sub(r"<test input [0-9a-f]+>\.", "", first)
        out.setdefault(e["lineno"], []).append((e["code"].name, first))
    return out, code.splitlines()


def report(code):
    res, lines = check(code)
    rows = {}
    for lineno in sorted(res):
        src = lines[lineno - 1].strip()
        revealed = [m for c, m in res[lineno] if c == "reveal_type"]
        diags = [(c, m) for c, m in res[lineno] if c != "reveal_type"]
        typ = None
        if revealed:
            typ = re.search(r"Revealed type is .(.*).$", revealed[0]).group(1)
        rows[src] = (typ, diags)
    return rows


print("pyanalyze imported from", pyanalyze.__file__)

CODE = '''
import os
from typing import List, Union, overload

class R0: pass
class R1: pass

@overload
def f(x: int) -> R0: ...
@overload
def f(x: str) -> R1: ...
def f(x): raise NotImplementedError

def c1(ys: List[int]):
    reveal_type(f(*ys))

def c2(xs: List[Union[int, str]]):
    reveal_type(f(*xs))

def c3(kw: dict[str, Union[int, str]]):
    reveal_type(f(**kw))

def c4(parts: List[Union[str, bytes]]):
    reveal_type(os.path.join(*parts))
'''

rows = report(CODE)
for src, (typ, diags) in rows.items():
    print(f"{src:36} -> type {typ!r}, diagnostics {diags}")

print()
print("Property: the single argument bound to x has type int | str; f(int) -> R0 and f(str) -> R1")
print("are both accepted, so the call must be accepted with a type containing R0 and R1 (at the very")
print("least the checker must give an ordinary verdict, not die with an AssertionError).")
bad = []
for call in ("reveal_type(f(*xs))", "reveal_type(f(**kw))", "reveal_type(os.path.join(*parts))"):
    typ, diags = rows[call]
    if any(c == "internal_error" for c, _ in diags):
        bad.append((call, diags))
if bad:
    print("VIOLATION reproduced (internal_error):")
    for b in bad:
        print("  ", b)
    sys.exit(1)
print("no violation")
sys.exit(0)
