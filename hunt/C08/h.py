import os, sys, textwrap, io, contextlib
sys.path.insert(0, os.getcwd())
from pyanalyze.test_name_check_visitor import TestNameCheckVisitorBase

def run(code):
    code = textwrap.dedent(code)
    t = TestNameCheckVisitorBase()
    buf = io.StringIO()
    with contextlib.redirect_stdout(buf), contextlib.redirect_stderr(buf):
        errs = t._run_str(code, fail_after_first=False)
    out = []
    for e in errs:
        out.append((e["lineno"], e["code"].name, e["description"].splitlines()[0] if e.get("description") else e.get("message")))
    return out

if __name__ == "__main__":
    code = open(sys.argv[1]).read()
    lines = code.splitlines()
    for e in run(code):
        print(e[0], lines[e[0]-1].strip(), "=>", e[1], e[2])
