import contextlib
import io
import os
import re
import sys
import textwrap

sys.path.insert(0, os.getcwd())

import pyanalyze  # noqa: E402
from pyanalyze.test_name_check_visitor import TestNameCheckVisitorBase  # noqa: E402


def check(code):
    """Run pyanalyze on a snippet; return {lineno: [(error_code, first line of message)]}."""
    code = textwrap.dedent(code)
    buf = io.StringIO()
    with contextlib.redirect_stdout(buf), contextlib.redirect_stderr(buf):
        errors = TestNameCheckVisitorBase()._run_str(code, fail_after_first=False)
    out = {}
    for e in errors:
        desc = e["description"]
        if e["code"].name == "internal_error":
            first = [ln for ln in desc.splitlines() if ln.strip()][-1]
        else:
            first = desc.splitlines()[0]
        first = re.sub(r"<test input [0-9a-f]+>\.", "", first)
        out.setdefault(e["lineno"], []).append((e["code"].name, first))
    return out, code.splitlines()


def report(code):
    res, lines = check(code)
    rows = {}
    for lineno in sorted(res):
        src = lines[lineno - 1].strip()
        revealed = [m for c, m in res[lineno] if c == "reveal_type"]
        diags = [(c, m) for c, m in res[lineno] if c != "reveal_type"]
        typ = None
        if revealed:
            typ = re.search(r"Revealed type is .(.*).$", revealed[0]).group(1)
        rows[src] = (typ, diags)
    return rows


print("pyanalyze imported from", pyanalyze.__file__)

CODE = '''
from typing import overload

class R0: pass
class R1: pass

@overload
def f(x: int, *args: int) -> R0: ...
@overload
def f(x: object) -> R1: ...
def f(*args, **kwargs): raise NotImplementedError

@overload
def g(x: int, **kwargs: int) -> R0: ...
@overload
def g(x: object) -> R1: ...
def g(*args, **kwargs): raise NotImplementedError

def plain(x: int, *args: int) -> R0: raise NotImplementedError

def capybara(i: int):
    reveal_type(plain(i))
    reveal_type(f(i))
    reveal_type(g(i))
    reveal_type(f(i, i))
    reveal_type(g(i, k=i))
'''

rows = report(CODE)
for src, (typ, diags) in rows.items():
    print(f"{src:32} -> type {typ!r}, diagnostics {diags}")

print()
print("Property: the argument is a plain `int` (no Any, no union). The first overload")
print("(x: int, *args: int) / (x: int, **kwargs: int) accepts it, so f(i) and g(i) must be R0.")
bad = []
for call in ("reveal_type(f(i))", "reveal_type(g(i))"):
    typ, diags = rows[call]
    if typ != "R0" or diags:
        bad.append((call, typ))
if bad:
    print("VIOLATION reproduced:", bad)
    sys.exit(1)
print("no violation")
sys.exit(0)
