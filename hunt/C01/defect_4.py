"""C01 defect 4: a `finally` block is not applied to paths that leave the try body through
`break` or `continue`.

visit_Try models try/finally as "finally after an exception" plus "finally after normal
completion".  A break/continue inside the try body hands its scope straight to the
enclosing loop, so assignments made by the finally block are missing from that path, both
at the top of the next iteration and after the loop.

Run as: cd /tmp/hunt/C01 && /venv/bin/python /tmp/hunt/out/C01/defect_4.py
"""

import os
import sys

sys.path.insert(0, os.getcwd())

import ast
import contextlib
import copy
import io
import textwrap

import pyanalyze
from pyanalyze.ast_annotator import annotate_code
from pyanalyze.checker import Checker
from pyanalyze.value import CanAssignError, KnownValue, MultiValuedValue

PRELUDE = "def probe(x, _key=None):\n    return x\n"


def contains(inferred, runtime_value, ctx):
    """Is the concrete runtime value a member of the inferred abstract value?"""
    if isinstance(inferred, MultiValuedValue):
        return any(contains(v, runtime_value, ctx) for v in inferred.vals)
    result = inferred.can_assign(KnownValue(runtime_value), ctx)
    return not isinstance(result, CanAssignError)


def check(source, calls):
    """Annotate `source` with pyanalyze, execute it under CPython, and compare.

    Every `probe(expr)` call in the source is an observation point: the inferred value
    is pyanalyze's value for `expr` (what reveal_type(expr) would print there), the
    runtime values are what `expr` evaluated to when the listed calls were executed.
    Returns the number of (probe, runtime value) pairs not contained in the inferred value.
    """
    source = PRELUDE + textwrap.dedent(source)
    sink = io.StringIO()
    with contextlib.redirect_stdout(sink), contextlib.redirect_stderr(sink):
        tree = annotate_code(source)
    inferred = {}
    for node in ast.walk(tree):
        if (
            isinstance(node, ast.Call)
            and isinstance(node.func, ast.Name)
            and node.func.id == "probe"
        ):
            key = (node.lineno, node.col_offset)
            inferred[key] = (ast.unparse(node.args[0]), node.args[0].inferred_value)
    run_tree = ast.parse(source)
    for node in ast.walk(run_tree):
        if (
            isinstance(node, ast.Call)
            and isinstance(node.func, ast.Name)
            and node.func.id == "probe"
        ):
            node.args.append(ast.Constant((node.lineno, node.col_offset)))
    ast.fix_missing_locations(run_tree)
    namespace = {}
    exec(compile(run_tree, "<checked program>", "exec"), namespace)
    seen = []

    def probe(x, _key=None):
        try:
            seen.append((_key, copy.deepcopy(x)))
        except Exception:
            seen.append((_key, x))
        return x

    namespace["probe"] = probe
    ctx = Checker()
    violations = 0
    for func, args in calls:
        if isinstance(args, str):
            args = eval(args, namespace)
        del seen[:]
        print(f"  call {func}{args!r}")
        namespace[func](*args)
        reported = set()
        for key, value in seen:
            if (key, repr(value)) in reported:
                continue
            reported.add((key, repr(value)))
            expr, inf = inferred[key]
            ok = contains(inf, value, ctx)
            violations += not ok
            print(
                f"    line {key[0] - 2:>2}: {expr:<6} pyanalyze infers {inf}; CPython"
                f" evaluated it to {value!r} -> {'ok' if ok else 'VIOLATION'}"
            )
    return violations


SOURCE = '''\
def with_break(xs: list[int]):
    state = "idle"
    for x in xs:
        try:
            state = "busy"
            break
        finally:
            state = None
    probe(state)
    if state is None:
        probe(state)

def with_continue(n: int):
    y = 0
    while n:
        probe(y)
        n -= 1
        try:
            y = "a"
            continue
        finally:
            y = 2.0
    probe(y)
'''

CALLS = [("with_break", ([1],)), ("with_continue", (2,))]


def main():
    print("pyanalyze imported from", pyanalyze.__file__)
    print("checked program:")
    for i, line in enumerate(SOURCE.splitlines(), 1):
        print(f"  {i:>2}  {line}")
    print()
    violations = check(SOURCE, CALLS)
    print()
    print(
        "property C01 requires every runtime value to be a member of the value inferred"
        " for that expression (and an expression inferred as Never not to be reached)."
    )
    if violations:
        print(f"VIOLATED: {violations} runtime value(s) lie outside the inferred value")
        return 1
    print("no violation reproduced")
    return 0


if __name__ == "__main__":
    sys.exit(main())
