"""C14 defect 4: unions hidden under Annotated are not canonical: substitution nests a
union inside a union, substitution does not commute with uniting, and Never / idempotence
laws fail for Annotated[A | B, m].

AnnotatedValue.substitute_typevars builds AnnotatedValue(...) directly (not through
annotate_value), so Annotated[T, m1] with T := Annotated[int | str, m2] becomes
Annotated[Annotated[int | str, m2], m1].  unite_values / flatten_values / is_union only look
through ONE Annotated layer, so that union is never flattened again.  Separately,
unite_values distributes Annotated[A | B, m] into Annotated[A, m] | Annotated[B, m], and the
two spellings do not compare equal, so unite_values(a), unite_values(a, a) and
unite_values(a, Never) all differ from a.

Run: cd /tmp/hunt/C14 && /venv/bin/python /tmp/hunt/out/C14/defect_4.py
"""

import os
import sys

sys.path.insert(0, os.getcwd())

from typing import TypeVar

from pyanalyze.extensions import LiteralOnly, NoAny
from pyanalyze.value import (
    NO_RETURN_VALUE,
    AnnotatedValue,
    CustomCheckExtension,
    KnownValue,
    MultiValuedValue,
    TypedValue,
    TypeVarValue,
    flatten_values,
    is_union,
    unite_values,
)

T = TypeVar("T")
m1 = CustomCheckExtension(LiteralOnly())
m2 = CustomCheckExtension(NoAny())
failed = False


def contains_union(val) -> bool:
    """True if a union is reachable from val through Annotated wrappers only."""
    while isinstance(val, AnnotatedValue):
        val = val.value
    return isinstance(val, MultiValuedValue)


# ---- (a) substitution nests a union inside a union ----
a = AnnotatedValue(TypeVarValue(T), [m1])  # Annotated[T, LiteralOnly()]
b = TypedValue(bytes)
solution = AnnotatedValue(MultiValuedValue([TypedValue(int), TypedValue(str)]), [m2])
tv_map = {T: solution}  # T := Annotated[int | str, NoAny()]

left = unite_values(a, b).substitute_typevars(tv_map)
right = unite_values(a.substitute_typevars(tv_map), b.substitute_typevars(tv_map))
print("(a) unite(Annotated[T, m1], bytes).substitute({T: Annotated[int | str, m2]})")
print("    =", left)
assert isinstance(left, MultiValuedValue)
nested = [v for v in left.vals if contains_union(v)]
print("    members:", len(left.vals), "| members that are themselves unions:", len(nested))
for v in nested:
    print("    is_union(member):", is_union(v), "| flatten_values(member) yields", len(list(flatten_values(v))), "value(s)")
again = unite_values(left, KnownValue(None))
print("    uniting again does not repair it:", again)
print("    required: a union never contains a union; here 4 flat members are expected")
print("    (int and str each carrying both m1 and m2, bytes, None)")
if nested:
    print("    VIOLATION: union nested inside a union")
    failed = True

# ---- (b) Annotated[A | B, m]: idempotence / identity / commuting with substitution ----
x = AnnotatedValue(MultiValuedValue([TypedValue(int), KnownValue(None)]), [m1])
print()
print("(b) x =", x)
print("    unite_values(x)        =", unite_values(x), "| == x:", unite_values(x) == x)
print("    unite_values(x, x) == x:", unite_values(x, x) == x)
print("    unite_values(x, Never) == x:", unite_values(x, NO_RETURN_VALUE) == x)
t = TypeVarValue(T)
tv_map2 = {T: x}
l2 = unite_values(t, t).substitute_typevars(tv_map2)
r2 = unite_values(t.substitute_typevars(tv_map2), t.substitute_typevars(tv_map2))
print("    unite(T, T).substitute({T: x})         =", l2)
print("    unite(T.substitute(..), T.substitute(..)) =", r2, "| equal:", l2 == r2)
print("    required: unite(x, x) == x, unite(x, Never) == x, and substitution commutes with uniting")
if unite_values(x, x) != x or unite_values(x, NO_RETURN_VALUE) != x or l2 != r2:
    print("    VIOLATION: the two spellings of the same union are not equal")
    failed = True

sys.exit(1 if failed else 0)
