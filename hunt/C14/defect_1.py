"""C14 defect 1: substitute_typevars does not reach the type arguments of a type alias.

TypeAliasValue carries Values in .type_arguments (e.g. Alias[T]) but defines neither
substitute_typevars nor walk_values, so the base-class versions are used:
substitution returns the value unchanged and walk_values does not report the type variable.

Run: cd /tmp/hunt/C14 && /venv/bin/python /tmp/hunt/out/C14/defect_1.py
"""

import contextlib
import io
import os
import re
import sys

sys.path.insert(0, os.getcwd())

from typing import TypeVar

from pyanalyze.test_name_check_visitor import TestNameCheckVisitorBase
from pyanalyze.value import (
    GenericValue,
    TypeAlias,
    TypeAliasValue,
    TypedValue,
    TypeVarValue,
)

T = TypeVar("T")
U = TypeVar("U")
failed = False

# ---- API level -------------------------------------------------------------
# type Alias[U] = list[U];   value "Alias[T]"
alias = TypeAlias(lambda: GenericValue(list, [TypeVarValue(U)]), lambda: (U,))
alias_of_t = TypeAliasValue("Alias", "mod", alias, (TypeVarValue(T),))
plain = GenericValue(list, [TypeVarValue(T)])
tv_map = {T: TypedValue(int)}

sub_alias = alias_of_t.substitute_typevars(tv_map)
sub_plain = plain.substitute_typevars(tv_map)
print("list[T]  .substitute_typevars({T: int})             ->", sub_plain)
print("Alias[T] .substitute_typevars({T: int}).get_value() ->", sub_alias.get_value())
print("   required: list[int] in both cases (every occurrence of T replaced)")
still_has_t = any(
    isinstance(v, TypeVarValue) and v.typevar is T
    for v in sub_alias.get_value().walk_values()
)
if sub_alias is alias_of_t or still_has_t:
    print("   VIOLATION: Alias[T] is returned unchanged, T is still in it")
    failed = True
walked = [v for v in alias_of_t.walk_values() if isinstance(v, TypeVarValue)]
print("type variables reported by Alias[T].walk_values():", walked, "(required: [T])")
if not walked:
    failed = True

# ---- checker level ---------------------------------------------------------
code = '''
from typing import TypeVar, Generic, List
T = TypeVar("T")
type Alias[U] = list[U]

def via_alias(x: T) -> Alias[T]:
    raise NotImplementedError

def via_list(x: T) -> List[T]:
    raise NotImplementedError

class C(Generic[T]):
    def via_alias(self) -> Alias[T]:
        raise NotImplementedError
    def via_list(self) -> List[T]:
        raise NotImplementedError

def capybara(c: C[int]):
    for a in via_list(1):
        reveal_type(a)  # line 20
    for b in via_alias(1):
        reveal_type(b)  # line 22
    for d in c.via_list():
        reveal_type(d)  # line 24
    for e in c.via_alias():
        reveal_type(e)  # line 26
'''
buf = io.StringIO()
try:
    with contextlib.redirect_stdout(buf), contextlib.redirect_stderr(buf):
        TestNameCheckVisitorBase()._run_str(code, fail_after_first=False)
    output = buf.getvalue()
except Exception as exc:  # the test helper prints the diagnostics and raises
    output = buf.getvalue() + str(exc)
revealed = re.findall(r"Revealed type is '([^\n]*)' \(code: reveal_type\)", output)
labels = [
    "element of via_list(1)      (-> List[T])  ",
    "element of via_alias(1)     (-> Alias[T]) ",
    "element of C[int].via_list()  (-> List[T]) ",
    "element of C[int].via_alias() (-> Alias[T])",
]
print()
print("pyanalyze on a module with `type Alias[U] = list[U]`:")
for label, text in zip(labels, revealed):
    print("  ", label, "=>", text)
print("   required: the alias spelling gives the same element types as the List[T] spelling")
if len(revealed) == 4:
    if revealed[0] != revealed[1] or revealed[2] != revealed[3]:
        print("   VIOLATION: through the alias the type variable is never replaced")
        failed = True
else:
    print("   (unexpected checker output)\n", output[:2000])

sys.exit(1 if failed else 0)
