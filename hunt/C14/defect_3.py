"""C14 defect 3: Signature.__eq__ and Signature.__hash__ disagree, so CallableValues that
compare equal hash differently and are not merged; the equality itself ignores the order
of the parameters.

Signature is a dataclass whose generated __eq__ compares the `parameters` dict (dict
equality ignores insertion order) and skips `impl` and `callable` (compare=False).
The hand-written __hash__ hashes tuple(parameters.items()) (order sensitive) and includes
`impl` and `callable`.

Run: cd /tmp/hunt/C14 && /venv/bin/python /tmp/hunt/out/C14/defect_3.py
"""

import contextlib
import io
import os
import re
import sys

sys.path.insert(0, os.getcwd())

from pyanalyze.signature import SigParameter, Signature
from pyanalyze.test_name_check_visitor import TestNameCheckVisitorBase
from pyanalyze.value import (
    CallableValue,
    KnownValue,
    MultiValuedValue,
    TypedValue,
    unite_values,
)

failed = False
INT = TypedValue(int)
STR = TypedValue(str)
NONE = KnownValue(None)


def fn1(a: int) -> int:
    return a


def fn2(a: int) -> int:
    return a


# ---- (a) same signature, different `callable`: equal, different hash, not merged ----
c1 = CallableValue(Signature.make([SigParameter("a", annotation=INT)], INT, callable=fn1))
c2 = CallableValue(Signature.make([SigParameter("a", annotation=INT)], INT, callable=fn2))
u = unite_values(c1, c2)
print("(a) c1 =", c1, "| c2 =", c2, "(differ only in Signature.callable)")
print("    c1 == c2:", c1 == c2, "| hash equal:", hash(c1) == hash(c2))
print("    unite_values(c1, c2) =", u)
print("    required: equal values hash equal; equal alternatives are merged into one")
if c1 == c2 and hash(c1) != hash(c2):
    print("    VIOLATION: equal CallableValues with different hashes")
    failed = True
if isinstance(u, MultiValuedValue) and u.vals[0] == u.vals[1]:
    print("    VIOLATION: union with two equal members")
    failed = True

# ---- (b) parameter order is ignored by ==, but not by hash ----
ab = CallableValue(
    Signature.make([SigParameter("a", annotation=INT), SigParameter("b", annotation=STR)], NONE)
)
ba = CallableValue(
    Signature.make([SigParameter("b", annotation=STR), SigParameter("a", annotation=INT)], NONE)
)
print()
print("(b) ab =", ab, "| ba =", ba)
print("    ab == ba:", ab == ba, "| hash equal:", hash(ab) == hash(ba))
u_ab = unite_values(ab, INT)
u_ba = unite_values(ba, INT)
print("    unite_values(ab, int) == unite_values(ba, int):", u_ab == u_ba)
print("    unite_values(ab, ba) =", unite_values(ab, ba))
print("    required: f(1, 'x') is valid for ab and invalid for ba, so they are different")
print("    values; or, if they are equal, they must hash equal and be merged")
if ab == ba:
    print("    VIOLATION: callables with swapped positional parameters compare equal")
    failed = True
    if hash(ab) != hash(ba):
        print("    VIOLATION: ... and the equal values hash differently")

# ---- checker level: the two values arise for nested functions ----
code = '''
from pyanalyze.value import dump_value

def capybara(cond: bool):
    def f(a: int, b: str) -> None: pass
    def g(b: str, a: int) -> None: pass
    y = f if cond else g
    reveal_type(y)
'''
buf = io.StringIO()
try:
    with contextlib.redirect_stdout(buf), contextlib.redirect_stderr(buf):
        TestNameCheckVisitorBase()._run_str(code, fail_after_first=False)
    output = buf.getvalue()
except Exception as exc:
    output = buf.getvalue() + str(exc)
revealed = re.findall(r"Revealed type is (.*) \(code: reveal_type\)", output)
print()
print("pyanalyze on `y = f if cond else g` for nested f(a: int, b: str), g(b: str, a: int):")
for text in revealed:
    print("   ", text)
print("    (both alternatives survive only because the hashes differ; the two members")
print("     compare equal with ==)")

sys.exit(1 if failed else 0)
