"""C14 defect 2: KnownValue(f) == KnownValueWithTypeVars(f, m) but their hashes differ,
so a union keeps two equal alternatives.

KnownValue.substitute_typevars turns the literal of any callable into a
KnownValueWithTypeVars.  That subclass is a dataclass without its own __hash__, so the
dataclass machinery generates hash((val,)), while KnownValue.__hash__ is
hash((type(val), val)).  Equality between the two classes still goes through
KnownValue.__eq__ and is True.

Run: cd /tmp/hunt/C14 && /venv/bin/python /tmp/hunt/out/C14/defect_2.py
"""

import contextlib
import io
import os
import re
import sys

sys.path.insert(0, os.getcwd())

from typing import TypeVar

from pyanalyze.test_name_check_visitor import TestNameCheckVisitorBase
from pyanalyze.value import KnownValue, MultiValuedValue, TypedValue, unite_values

T = TypeVar("T")
failed = False


def helper(x: int) -> int:
    return x


# ---- API level -------------------------------------------------------------
a = KnownValue(helper)
b = a.substitute_typevars({T: TypedValue(int)})  # no type variable occurs in `a`
print("a =", a)
print("b = a.substitute_typevars({T: int}) =", type(b).__name__)
print("a == b:", a == b, "| b == a:", b == a)
print("hash(a) == hash(b):", hash(a) == hash(b))
print("b in {a}:", b in {a})
u = unite_values(a, b)
print("unite_values(a, b) =", u)
print("   required: equal values hash equal, and unite_values(a, b) == a (one member)")
if a == b and hash(a) != hash(b):
    print("   VIOLATION: equal values with different hashes")
    failed = True
if isinstance(u, MultiValuedValue) and len(u.vals) == 2 and u.vals[0] == u.vals[1]:
    print("   VIOLATION: the union has two members that compare equal")
    failed = True

# ---- checker level ---------------------------------------------------------
code = '''
def helper(x: int) -> int:
    return x

class C:
    attr = staticmethod(helper)

def capybara(cond: bool):
    x = helper if cond else C.attr
    reveal_type(x)
    y = helper if cond else helper
    reveal_type(y)
'''
buf = io.StringIO()
try:
    with contextlib.redirect_stdout(buf), contextlib.redirect_stderr(buf):
        TestNameCheckVisitorBase()._run_str(code, fail_after_first=False)
    output = buf.getvalue()
except Exception as exc:
    output = buf.getvalue() + str(exc)
revealed = re.findall(r"Revealed type is (.*) \(code: reveal_type\)", output)
print()
print("pyanalyze on `x = helper if cond else C.attr` (C.attr = staticmethod(helper)):")
for text in revealed:
    print("   ", text)
print("   required: both branches are the same function, so the merged value is that")
print("   one function (as for `helper if cond else helper`), not a two-member union")
if revealed and re.search(r"Literal\[<function helper at (0x[0-9a-f]+)>, <function helper at \1>\]", revealed[0]):
    print("   VIOLATION: the same function object is listed twice in the merged value")
    failed = True

sys.exit(1 if failed else 0)
