#!/bin/bash
# usage: ./seedtest.sh <patch.diff> <property id> [extra ./check args]
# Applies a seeded change to /repo's working tree, runs the check, and undoes the change.
set -u
P="$1"; shift; ID="$1"; shift
cd /repo || exit 2
if ! git diff --quiet; then echo "seedtest: /repo has uncommitted changes"; exit 2; fi
git apply "$P" || { echo "seedtest: patch does not apply"; exit 2; }
cd /verif
./check "$ID" "$@" > /tmp/seedtest.$ID.log 2>&1
rc=$?
git -C /repo checkout -- .
grep -E "^(VIOLATION|KNOWN-FINDING|HARNESS-ERROR|== )|counterexample" /tmp/seedtest.$ID.log | cut -c1-300 | head -20
echo "seedtest: exit code $rc"
exit $rc
