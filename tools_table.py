#!/usr/bin/env python3
"""Prints the rows of DESIGN.md 10.3 from evidence/*.json (run after run_quick_all.sh)."""
import collections, glob, json, os

HERE = os.path.dirname(os.path.abspath(__file__))
rows = []
for f in sorted(glob.glob(os.path.join(HERE, "evidence", "C*.json"))):
    e = json.load(open(f))
    c = e["coverage"]
    res = os.path.join(HERE, ".work", e["property_id"] + ".results.json")
    templates = collections.Counter()
    if os.path.exists(res):
        for lab, v in json.load(open(res))["results"].items():
            templates[v.get("template", "?")] += 1
    t = ", ".join(f"{k} {v}" for k, v in sorted(templates.items()))
    rows.append(f"| {e['property_id']} | {t} | {c.get('conditions')} / {c.get('discharged')} / {c.get('inconclusive')} / {c.get('distinct_nontrivial')} | {e['wall_s'] / 60:.1f} min | {c.get('states')} / {c.get('transitions')} |")
print("| id | templates (conditions each) | conditions / discharged / inconclusive / with refuted twin | wall (16 workers) | paths / z3 queries |")
print("|---|---|---|---|---|")
print("\n".join(rows))
