#!/bin/bash
# usage: save_seed.sh C18_a "<what it needs to manifest>"
T=$1; NEEDS=$2; ID=${T%%_*}
D=/verif/seeded/$T; mkdir -p $D
cp /tmp/seed/out/$T/patch.diff /tmp/seed/out/$T/demo.py /tmp/seed/out/$T/notes.md /tmp/seed/out/$T/confirm.txt $D/ 2>/dev/null
/venv/bin/python - "$T" "$ID" "$NEEDS" <<'PY'
import json, sys
t, pid, needs = sys.argv[1:4]
conf = open(f"/verif/seeded/{t}/confirm.txt").read()
meta = {
 "seed": t, "property": pid, "breaks": pid,
 "needs_to_manifest": needs,
 "produced_by": "independent sub-agent given only the property record and a scratch worktree",
 "confirmed_by_me": {
   "suite_with_change": [l for l in conf.splitlines() if "passed" in l or "failed" in l][:1],
   "demo_with_change_exit": 1 if "### demo with change\nexit=1" in conf else None,
   "demo_on_original_exit": 0 if "### demo on original\nexit=0" in conf else None,
   "commands": ["cd <worktree> && /venv/bin/python -m pytest -q -p no:cacheprovider --timeout=900 -n 6",
                "cd <worktree> && /venv/bin/python demo.py   (with the change, then after git stash)"],
 },
 "detected_by": None,
}
json.dump(meta, open(f"/verif/seeded/{t}/meta.json", "w"), indent=1)
PY
git -C /repo worktree remove --force /tmp/seed/$T 2>/dev/null; echo saved $T
