#!/bin/bash
# usage: ./seedtest_wt.sh <patch.diff> <property id> [extra ./check args]
# Like seedtest.sh but leaves /repo untouched: the patch is applied in a scratch worktree that is put
# in front of /repo on PYTHONPATH (used while background runs read /repo).  The registered way of
# testing a seed remains seedtest.sh (apply to /repo, run, undo).
set -u
P="$1"; shift; ID="$1"; shift
WT=/tmp/seedwt_$$
git -C /repo worktree add -q --detach $WT HEAD || exit 2
( cd $WT && git apply "$P" ) || { git -C /repo worktree remove --force $WT; echo "patch does not apply"; exit 2; }
cd /verif
PYTHONPATH=$WT ./check "$ID" "$@" > /tmp/seedtest_wt.$ID.log 2>&1
rc=$?
git -C /repo worktree remove --force $WT
grep -E "^(VIOLATION|HARNESS-ERROR|== )|counterexample" /tmp/seedtest_wt.$ID.log | cut -c1-250 | head -12
echo "seedtest_wt: exit code $rc"
exit $rc
