#!/bin/bash
# Runs every thorough check in sequence (used through `vp run`); summary lines only.
for id in "$@"; do
  echo "##### $id $(date -u +%T)"
  ./check $id --tier thorough 2>&1 | grep -E "^==|HARNESS|counterexample|KNOWN|VIOLATION|E3|E2" | cut -c1-400
  echo "##### $id exit=${PIPESTATUS[0]} $(date -u +%T)"
done
