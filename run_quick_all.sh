#!/bin/bash
# Runs every registered quick check in sequence on /repo (used to regenerate the committed evidence).
ids=$(/opt/veriftools/pyvenv/bin/python -c "import json; print(' '.join(c['property_id'] for c in json.load(open('/verif/MANIFEST.json'))['checks']))")
for id in $ids; do
  s=$(date +%s)
  ./check $id --tier quick > /tmp/quick_$id.log 2>&1
  rc=$?
  e=$(date +%s)
  echo "$id exit=$rc wall=$((e-s))s $(grep -E '^== '$id':' /tmp/quick_$id.log | cut -c1-160)"
  grep -E "HARNESS-ERROR|VIOLATION" /tmp/quick_$id.log | head -3
done
