import ast, enum
from pyanalyze.node_visitor import BaseNodeVisitor, _FakeNode, IGNORE_COMMENT

class EC(enum.Enum):
    aa = 1
    bb = 2

class V(BaseNodeVisitor):
    error_code_enum = EC

LINEKINDS = ["x = 1\n", "x = 1  " + IGNORE_COMMENT + "\n", "x = 1  " + IGNORE_COMMENT + "[aa]\n", IGNORE_COMMENT + "\n", IGNORE_COMMENT + "[aa]\n", "    " + IGNORE_COMMENT + "[bb]\n"]

def run(kinds, lineno, code_is_a):
    lines = [LINEKINDS[k] for k in kinds]
    contents = "".join(lines)
    import io, contextlib
    v = V("f.py", contents, ast.parse("pass"), settings=None)
    code = EC.aa if code_is_a else EC.bb
    with contextlib.redirect_stderr(io.StringIO()):
        r = v.show_error(_FakeNode(lineno, 0), "msg", error_code=code)
    return r is not None

def spec(kinds, lineno, code_is_a):
    code = "aa" if code_is_a else "bb"
    # file-level ignore: leading comment lines
    for k in kinds:
        if k not in (3, 4, 5):
            break
        if k == 5:   # indented: line does not start with '#'
            break
        if k == 3 or (k == 4 and code == "aa"):
            return False
    this = kinds[lineno - 1]
    if this == 1 or (this == 2 and code == "aa"):
        return False
    if lineno >= 2:
        prev = kinds[lineno - 2]
        if prev == 3 or (prev == 4 and code == "aa") or (prev == 5 and code == "bb"):
            return False
    return True

def check(k0: int, k1: int, k2: int, lineno: int, a: bool) -> bool:
    """
    pre: 0 <= k0 < 6 and 0 <= k1 < 6 and 0 <= k2 < 6 and 1 <= lineno <= 3
    post: _
    """
    ks = []
    for k in (k0, k1, k2):
        for j in range(6):
            if k == j:
                ks.append(j)
    return run(ks, lineno, a) == spec(ks, lineno, a)
