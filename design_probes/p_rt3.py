from pyanalyze.value import KnownValue, TypedValue, MultiValuedValue, AnnotatedValue, CustomCheckExtension, CanAssignError
from pyanalyze.annotated_types import Gt
from pyanalyze.checker import Checker
CHK = Checker()
INT = TypedValue(int); LIT3 = KnownValue(3); GT5 = AnnotatedValue(TypedValue(int), [CustomCheckExtension(Gt(5))])
U = MultiValuedValue([LIT3, GT5, KnownValue(None)])
for v in (INT, LIT3, GT5, U):
    v.can_assign(KnownValue(1), CHK)
def ok(x): return not isinstance(x, CanAssignError)

def a_int(o: int) -> bool:
    """ post: _ """
    return ok(INT.can_assign(KnownValue(o), CHK))
def a_lit(o: int) -> bool:
    """ post: _ """
    return ok(LIT3.can_assign(KnownValue(o), CHK)) == (o == 3)
def a_gt(o: int) -> bool:
    """ post: _ """
    return ok(GT5.can_assign(KnownValue(o), CHK)) == (o > 5)
def a_u(o: int) -> bool:
    """ post: _ """
    return ok(U.can_assign(KnownValue(o), CHK)) == (o == 3 or o > 5)
