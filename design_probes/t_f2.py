import ast, os, sys, tempfile, io, contextlib
from pyanalyze.name_check_visitor import NameCheckVisitor
def run(code):
    d = tempfile.mkdtemp()
    p = os.path.join(d, "modf2.py")
    open(p, "w").write(code)
    kwargs = NameCheckVisitor.prepare_constructor_kwargs({})
    with contextlib.redirect_stderr(io.StringIO()), contextlib.redirect_stdout(io.StringIO()):
        fails = NameCheckVisitor.check_file(p, **kwargs)
    return [(f["code"].name, f.get("lineno")) for f in fails]
print("no comment     :", run("print(undefined_thing)\nx = 1\n"))
print("comment on last:", run("print(undefined_thing)\nx = 1\n# static analysis: ignore\n"))
print("comment middle :", run("print(undefined_thing)\n# static analysis: ignore\nx = 1\n"))
