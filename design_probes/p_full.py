import ast
from pyanalyze.ast_annotator import _annotate_module
from pyanalyze.name_check_visitor import NameCheckVisitor
from pyanalyze.value import KnownValue, flatten_values, TypedValue, AnyValue
from pyanalyze.importer import load_module_from_file

CODE = '''
def f(x: int):
    t = (1, "a", 2.0)
    return t[0]
'''
import types
MOD = types.ModuleType("probe_mod")
exec(CODE, MOD.__dict__)

def check(k: int) -> bool:
    """
    pre: -5 <= k <= 5
    post: _
    """
    tree = ast.parse(CODE)
    ret = tree.body[0].body[1]
    sub = ret.value
    sub.slice = ast.Constant(value=k, lineno=4, col_offset=13, end_lineno=4, end_col_offset=14)
    _annotate_module("", MOD, tree, CODE, NameCheckVisitor, show_errors=False)
    inferred = sub.inferred_value
    t = (1, "a", 2.0)
    if not (-3 <= k < 3):
        return True
    actual = t[k]
    for v in flatten_values(inferred):
        if isinstance(v, KnownValue) and type(v.val) is type(actual) and v.val == actual:
            return True
        if isinstance(v, AnyValue):
            return True
    return False
