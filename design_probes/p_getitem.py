from pyanalyze.value import SequenceValue, KnownValue, TypedValue, flatten_values, Value, AnyValue, GenericValue
from pyanalyze.signature import CallContext, ImplReturn
from pyanalyze.stacked_scopes import Composite
from pyanalyze.checker import Checker
from pyanalyze import implementation as impl

class T0: pass
class T1: pass
class T2: pass
class T3: pass
class T4: pass
TS = [T0, T1, T2, T3, T4]
LAYOUT = [(False, 0), (True, 1), (False, 2), (False, 3), (False, 4)]
SV = SequenceValue(tuple, [(m, TypedValue(TS[t])) for m, t in LAYOUT])
CHK = Checker()

class StubVisitor:
    def __init__(self):
        self.errors = []
    def __getattr__(self, name):
        return getattr(CHK, name)
    def _check_dunder_call(self, node, composite, name, args, allow_call=False):
        return composite.value, None
    def show_error(self, *a, **k):
        self.errors.append(a)

class Ctx(CallContext):
    def show_error(self, message, *a, **k):
        self.visitor.errors.append(message)

def tags(v: Value):
    out = set()
    for sub in flatten_values(v):
        if isinstance(sub, TypedValue) and sub.typ in TS:
            out.add(TS.index(sub.typ))
        elif isinstance(sub, AnyValue):
            out |= {0,1,2,3,4}
        else:
            raise AssertionError(sub)
    return out

def check(key: int, k: int) -> bool:
    """
    pre: 0 <= k <= 3
    post: _
    """
    vis = StubVisitor()
    ctx = Ctx(vars={"self": SV, "obj": KnownValue(key)}, visitor=vis, composites={}, node=None, sig=None, inferred_return_value=AnyValue(None))
    ret = impl._sequence_common_getitem_impl(ctx, tuple)
    val = ret.return_value if isinstance(ret, ImplReturn) else ret
    rt = []
    for many, t in LAYOUT:
        if many:
            for kk in range(4):
                if kk < k:
                    rt.append(t)
        else:
            rt.append(t)
    n = len(rt)
    if not (-n <= key < n):
        return True
    return rt[key] in tags(val)
