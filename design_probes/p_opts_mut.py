from typing import List, Tuple
from pyanalyze.options import ConfigOption, IntegerOption, Options

class _ProbeOpt(IntegerOption):
    name = "probe_opt_xyz"
    default_value = -1
    should_create_command_line_option = False

def spec(insts, module_path):
    # documented precedence: command line first, then by priority (file depth), then longest prefix; ties by order
    best = None
    for idx, (cl, prio, app, val) in enumerate(insts):
        if tuple(module_path[:len(app)]) != tuple(app):
            continue
        key = (0 if cl else 1, prio, -len(app), idx)
        if best is None or key < best[0]:
            best = (key, val)
    return -1 if best is None else best[1]

def _sk(self):
    return (not self.from_command_line, self.priority, len(self.applicable_to))
ConfigOption.sort_key = _sk

def check(i1: Tuple[bool, int, Tuple[int, ...], int], i2: Tuple[bool, int, Tuple[int, ...], int], i3: Tuple[bool, int, Tuple[int, ...], int], mp: Tuple[int, ...]) -> bool:
    """
    pre: all(0 <= i[1] <= 2 and len(i[2]) <= 2 for i in (i1, i2, i3))
    pre: len(mp) <= 3
    post: _
    """
    raw = [i1, i2, i3]
    insts = [_ProbeOpt(v, tuple(app), cl, prio) for (cl, prio, app, v) in raw]
    opts = Options.from_option_list(insts).for_module(tuple(mp))
    got = opts.get_value_for(_ProbeOpt)
    return got == spec(raw, mp)
