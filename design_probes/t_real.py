from pyanalyze.ast_annotator import annotate_code
import ast
code = '''
from typing_extensions import Unpack
def f(t: tuple[int, Unpack[tuple[str, ...]], float, bytes, bool]):
    return t[-1], t[-2], t[-3], t[0], t[1]
'''
tree = annotate_code(code)
for node in ast.walk(tree):
    if isinstance(node, ast.Subscript) and hasattr(node, "inferred_value") and isinstance(node.value, ast.Name) and node.value.id == "t":
        print(ast.unparse(node), "->", node.inferred_value)
