import ast
from typing import Tuple
from pyanalyze.value import Value, CanAssignError, MultiValuedValue, flatten_values, unite_values, KnownValue, TypedValue
from pyanalyze.type_evaluation import Evaluator, EvalContext
from pyanalyze.checker import Checker
CHK = Checker()
N = 3
class Atom(Value):
    __slots__ = ("i", "rel")
    def __init__(self, i, rel):
        self.i = i; self.rel = rel
    def __eq__(self, o): return isinstance(o, Atom) and o.i == self.i
    def __hash__(self): return hash(("Atom", self.i))
    def __str__(self): return f"A{self.i}"
    __repr__ = __str__
    def can_assign(self, other, ctx):
        if isinstance(other, Atom):
            if self.rel[self.i * N + other.i]:
                return {}
            return CanAssignError("no")
        return super().can_assign(other, ctx)

BODY = '''
def f(x):
    if is_of_type(x, A0):
        return R0
    elif is_of_type(x, A1):
        return R1
    else:
        return R2
'''
NODE = ast.parse(BODY).body[0]
RS = {"R0": KnownValue("r0"), "R1": KnownValue("r1"), "R2": KnownValue("r2")}

class Ev(Evaluator):
    def __init__(self, node, ret, env):
        super().__init__(node, ret); self.env = env
    def evaluate_type(self, node):
        return self.env[node.id]
    def evaluate_value(self, node):
        return self.env[node.id]

B9 = Tuple[bool, bool, bool, bool, bool, bool, bool, bool, bool]
def check(rel: B9) -> bool:
    """
    post: _
    """
    bits = rel
    class Rel:
        def __getitem__(self, idx):
            i, j = divmod(idx, 3)
            # j <= i  iff  down(j) subset of down(i); down(i) always contains i
            for k in range(3):
                bj = True if k == j else bits[j * 3 + k]
                bi = True if k == i else bits[i * 3 + k]
                if bj and not bi:
                    return False
            return True
    rel = Rel()
    A = [Atom(i, rel) for i in range(N)]
    env = {"A0": A[0], "A1": A[1], **RS}
    ev = Ev(NODE, KnownValue(None), env)
    def run(arg):
        ctx = EvalContext({"x": arg}, {"x": 0}, CHK, {})
        val, errs = ev.evaluate(ctx)
        return set(flatten_values(val)), len(errs)
    whole = run(MultiValuedValue([A[1], A[2]]))
    p1 = run(A[1]); p2 = run(A[2])
    return whole[0] == (p1[0] | p2[0])
