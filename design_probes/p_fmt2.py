from pyanalyze.format_strings import PercentFormatString

def nspec(s: str) -> int:
    """
    pre: len(s) == 4
    post: _ <= 1
    """
    fs = PercentFormatString.from_pattern(s)
    return len(fs.specifiers)

def dotf(s: str) -> bool:
    """
    pre: len(s) == 3
    pre: s[0] == "%" and s[1] == "."
    post: _
    """
    fs = PercentFormatString.from_pattern(s)
    errs = list(fs.lint())
    return len(errs) > 0 or s[2] != "f"
