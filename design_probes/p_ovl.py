from typing import Tuple
from contextlib import contextmanager
from pyanalyze.value import Value, CanAssignError, MultiValuedValue, AnyValue, AnySource, flatten_values, unite_values, KnownValue
from pyanalyze.signature import Signature, SigParameter, OverloadedSignature
from pyanalyze.stacked_scopes import Composite
from pyanalyze.checker import Checker
CHK = Checker()
N = 3

class Atom(Value):
    __slots__ = ("i", "rel")
    def __init__(self, i, rel):
        self.i = i; self.rel = rel
    def __eq__(self, o): return isinstance(o, Atom) and o.i == self.i
    def __hash__(self): return hash(("Atom", self.i))
    def __str__(self): return f"A{self.i}"
    __repr__ = __str__
    def can_assign(self, other, ctx):
        if isinstance(other, Atom):
            if self.rel[self.i * N + other.i]:
                return {}
            return CanAssignError("no")
        return super().can_assign(other, ctx)

class Vis:
    def __init__(self):
        self.errors = []; self.caught_errors = None
    def __getattr__(self, name):
        return getattr(CHK, name)
    @contextmanager
    def catch_errors(self):
        old = self.caught_errors; caught = []; self.caught_errors = caught
        try:
            yield caught
        finally:
            self.caught_errors = old
    def show_caught_errors(self, errors):
        for e in errors: self.show_error(**e)
    def show_error(self, node=None, e=None, error_code=None, **kw):
        d = {"node": node, "e": e, "error_code": error_code, "detail": kw.get("detail")}
        if self.caught_errors is not None:
            self.caught_errors.append(d); return
        self.errors.append(d)

R0, R1 = KnownValue("r0"), KnownValue("r1")
B9 = Tuple[bool, bool, bool, bool, bool, bool, bool, bool, bool]

def accepts(rel, a, b):
    return all(any(rel[x.i * N + y.i] for x in flatten_values(a)) for y in flatten_values(b))

def check(rel: B9) -> bool:
    """
    pre: all(rel[i * 3 + i] for i in range(3))
    pre: all((not (rel[a*3+b] and rel[b*3+c])) or rel[a*3+c] for a in range(3) for b in range(3) for c in range(3))
    post: _
    """
    A = [Atom(i, rel) for i in range(N)]
    sig0 = Signature.make([SigParameter("x", annotation=A[0])], R0)
    sig1 = Signature.make([SigParameter("x", annotation=A[1])], R1)
    ov = OverloadedSignature([sig0, sig1])
    vis = Vis()
    arg = A[2]
    ret = ov.check_call([(Composite(arg), None)], vis, None)
    # reference: first match
    if accepts(rel, A[0], arg):
        exp, err = R0, False
    elif accepts(rel, A[1], arg):
        exp, err = R1, False
    else:
        exp, err = None, True
    if err:
        return len(vis.errors) == 1
    return len(vis.errors) == 0 and ret == exp
