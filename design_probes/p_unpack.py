from typing import Optional
from pyanalyze.value import SequenceValue, KnownValue, MultiValuedValue, GenericValue, CanAssignError, _unpack_sequence_value, flatten_values, Value

LAYOUT = [(False, 0), (True, 1), (False, 2), (False, 3)]   # tuple[T0, *tuple[T1,...], T2, T3]
SV = SequenceValue(tuple, [(m, KnownValue(t)) for m, t in LAYOUT])

def tags(v: Value):
    out = set()
    for sub in flatten_values(v):
        if isinstance(sub, KnownValue):
            out.add(sub.val)
        elif isinstance(sub, SequenceValue):
            for _, m in sub.members:
                out |= tags(m)
        elif isinstance(sub, GenericValue):
            out |= tags(sub.args[0])
        else:
            raise AssertionError(sub)
    return out

def check(target: int, post: int, k: int) -> bool:
    """
    pre: 0 <= target <= 5 and -1 <= post <= 4 and 0 <= k <= 3
    post: _
    """
    psl = None if post < 0 else post
    res = _unpack_sequence_value(SV, target, psl)
    # runtime tuple: tag per element
    rt = []
    for many, t in LAYOUT:
        if many:
            rt += [t] * k
        else:
            rt.append(t)
    n = len(rt)
    if isinstance(res, CanAssignError):
        return True
    # does the runtime unpack succeed?
    if psl is None:
        if n != target:
            return True
        for i in range(target):
            if rt[i] not in tags(res[i]):
                return False
        return True
    else:
        if n < target + psl:
            return True
        if len(res) != target + 1 + psl:
            return False
        for i in range(target):
            if rt[i] not in tags(res[i]):
                return False
        for j in range(psl):
            if rt[n - psl + j] not in tags(res[target + 1 + j]):
                return False
        for e in rt[target:n - psl]:
            if e not in tags(res[target]):
                return False
        return True
