from typing import Literal, Union, Tuple, List, Optional
from typing_extensions import Annotated
from annotated_types import Gt
import pyanalyze.runtime as rt
from pyanalyze.annotations import type_from_runtime

T1 = Union[Literal[3], Annotated[int, Gt(5)], None]
T2 = Tuple[int, str]; T3 = Tuple[str, int]; T4 = List[int]
_MEMO = {id(t): type_from_runtime(t) for t in (T1, T2, T3, T4)}
rt.type_from_runtime = lambda t: _MEMO[id(t)]
from pyanalyze.checker import Checker
_CHK = Checker()
rt._get_checker = lambda: _CHK
# warm caches (typeshed etc.) outside tracing
for t in (T1, T2, T3, T4):
    for o in (0, True, "x", (1, "a"), [1, 1], None):
        rt.is_assignable(o, t)

def c1(o: int) -> bool:
    """
    post: _
    """
    return rt.is_assignable(o, T1) == (o == 3 or o > 5)

def c2(o: bool) -> bool:
    """
    post: _
    """
    return rt.is_assignable(o, T1) == False

def c3(a: int, b: str) -> bool:
    """
    post: _
    """
    return rt.is_assignable((a, b), T2) and not rt.is_assignable((a, b), T3) and rt.is_assignable([a, a], T4)
