import ast, enum, io, contextlib, collections
import qcore
from pyanalyze.node_visitor import BaseNodeVisitor, _FakeNode, IGNORE_COMMENT

class EC(enum.Enum):
    aa = 1
    bb = 2

class V(BaseNodeVisitor):
    error_code_enum = EC
    table = None
    def visit(self, node):
        # emit the diagnostics the (symbolic) table assigns to each tagged statement line
        for i, line in enumerate(self._lines()):
            s = line.strip()
            if s.startswith("stmt"):
                tag = int(s[4:5])
                a, b = self.table[tag]
                if a:
                    self.show_error(_FakeNode(i + 1, 0), "ea", error_code=EC.aa)
                if b:
                    self.show_error(_FakeNode(i + 1, 0), "eb", error_code=EC.bb)

def run_once(contents, table):
    v = V("f.py", contents, ast.parse("pass"), settings=None, add_ignores=True)
    v.table = table
    with contextlib.redirect_stderr(io.StringIO()):
        failures, new = v.check_for_test(apply_changes=True)
    return failures, new

def check(a0: bool, b0: bool, a1: bool, b1: bool) -> bool:
    """
    pre: not (a0 and b0) and not (a1 and b1)
    post: _
    """
    table = {0: (a0, b0), 1: (a1, b1)}
    contents = "x = 0\nstmt0 = 1\n    stmt1 = 2\n"
    n_err = sum([a0, b0, a1, b1])
    for it in range(2 * n_err + 2):
        failures, contents = run_once(contents, table)
        if not failures:
            break
    else:
        return False
    stmts = [l for l in contents.splitlines() if not l.strip().startswith("#")]
    return stmts == ["x = 0", "stmt0 = 1", "    stmt1 = 2"]
