from dataclasses import dataclass
from typing import Tuple
from pyanalyze.value import Value, CanAssignError, LowerBound, UpperBound, MultiValuedValue, AnyValue, flatten_values, unite_values
from pyanalyze.typevar import solve
from pyanalyze.checker import Checker
from typing import TypeVar
T = TypeVar("T")
CHK = Checker()
N = 3

class Atom(Value):
    __slots__ = ("i", "rel")
    def __init__(self, i, rel):
        self.i = i; self.rel = rel
    def __eq__(self, o): return isinstance(o, Atom) and o.i == self.i
    def __hash__(self): return hash(("Atom", self.i))
    def __str__(self): return f"A{self.i}"
    __repr__ = __str__
    def can_assign(self, other, ctx):
        if isinstance(other, Atom):
            if self.rel[self.i * N + other.i]:
                return {}
            return CanAssignError(f"{other} !<= {self}")
        return super().can_assign(other, ctx)

B9 = Tuple[bool, bool, bool, bool, bool, bool, bool, bool, bool]

def accepts(rel, a, b):
    # reference semantics: a accepts b, over atoms and unions of atoms
    return all(any(rel[x.i * N + y.i] for x in flatten_values(a)) for y in flatten_values(b))

def check(rel: B9, k1: int, i1: int, k2: int, i2: int, k3: int, i3: int) -> bool:
    """
    pre: all(rel[i * 3 + i] for i in range(3))
    pre: all((not (rel[a*3+b] and rel[b*3+c])) or rel[a*3+c] for a in range(3) for b in range(3) for c in range(3))
    pre: 0 <= i1 < 3 and 0 <= i2 < 3 and 0 <= i3 < 3 and 0 <= k1 <= 1 and 0 <= k2 <= 1 and 0 <= k3 <= 1
    post: _
    """
    atoms = [Atom(i, rel) for i in range(N)]
    bounds = []
    for k, i in ((k1, i1), (k2, i2), (k3, i3)):
        for ii in range(N):
            if i == ii:
                a = atoms[ii]
        bounds.append(LowerBound(T, a) if k == 0 else UpperBound(T, a))
    sol = solve(bounds, CHK)
    if isinstance(sol, CanAssignError):
        return True
    if isinstance(sol, AnyValue):
        return True
    for b in bounds:
        if isinstance(b, LowerBound):
            if not accepts(rel, sol, b.value):
                return False
        else:
            if not accepts(rel, b.value, sol):
                return False
    return True
