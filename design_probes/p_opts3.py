from typing import List, Tuple
from pyanalyze.options import ConfigOption, IntegerOption, Options

class _ProbeOpt(IntegerOption):
    name = "probe_opt_xyz3"
    default_value = -1
    should_create_command_line_option = False

def spec(insts, module_path):
    best = None
    for idx, (cl, prio, app, val) in enumerate(insts):
        if tuple(module_path[:len(app)]) != tuple(app):
            continue
        key = (0 if cl else 1, prio, -len(app), idx)
        if best is None or key < best[0]:
            best = (key, val)
    return -1 if best is None else best[1]

def check(c1: bool, c2: bool, c3: bool, p1: int, p2: int, p3: int, a1: int, a3: int, b3: int, v1: int, v2: int, v3: int, x: int, y: int, z: int) -> bool:
    """
    pre: 0 <= p1 <= 2 and 0 <= p2 <= 2 and 0 <= p3 <= 2
    post: _
    """
    mp = (x, y, z)
    raw = [(c1, p1, (a1,), v1), (c2, p2, (), v2), (c3, p3, (a3, b3), v3)]
    insts = [_ProbeOpt(v, app, cl, prio) for (cl, prio, app, v) in raw]
    opts = Options.from_option_list(insts).for_module(tuple(mp))
    got = opts.get_value_for(_ProbeOpt)
    return got == spec(raw, mp)
