import ast
from pyanalyze.name_check_visitor import NameCheckVisitor
from pyanalyze.stacked_scopes import Composite, VarnameWithOrigin, constrain_value, Constraint, ConstraintType
from pyanalyze.value import KnownValue, TypedValue, MultiValuedValue, AnnotatedValue, flatten_values, CanAssignError, unite_values
from pyanalyze.checker import Checker
CHK = Checker()
VN = VarnameWithOrigin("x")

class StubSelf:
    def __getattr__(self, name):
        return getattr(CHK, name)
    def composite_from_node(self, node):
        return Composite(TypedValue(object), VN, node)
STUB = StubSelf()
import pyanalyze.annotated_types as _at
for _c in (_at.Gt, _at.Ge, _at.Lt, _at.Le, _at.MinLen, _at.MaxLen, _at.MultipleOf):
    _c.__hash__ = lambda self: hash(type(self).__name__)
KnownValue.__hash__ = lambda self: hash(("KV", type(self.val)))  # coarse but valid hash: avoids realising symbolic payloads
NODE = ast.Name(id="x")
OPS = {"eq": ast.Eq(), "ne": ast.NotEq(), "lt": ast.Lt(), "ge": ast.GtE(), "is": ast.Is()}

def member_int(o, V) -> bool:
    # reference membership of an int object o in V (subset of shapes)
    for v in flatten_values(V):
        if isinstance(v, AnnotatedValue):
            inner_ok = member_int(o, v.value)
            if inner_ok and all(ext.custom_check.predicate(o) for ext in v.metadata):
                return True
            continue
        if isinstance(v, KnownValue):
            if type(v.val) is int and v.val == o:
                return True
        elif isinstance(v, TypedValue) and v.typ in (int, float, object, complex):
            return True
    return False

def mk(opname, k, positive):
    c = NameCheckVisitor._constraint_from_compare_op(STUB, NODE, k, OPS[opname], is_right=True)
    return c if positive else c.invert()

def c_eq_lit(a: int, b: int, k: int, o: int, pos: bool) -> bool:
    """ post: _ """
    V = unite_values(KnownValue(a), KnownValue(b), TypedValue(str))
    if not member_int(o, V):
        return True
    narrowed = constrain_value(V, mk("eq", k, pos))
    if (o == k) == pos:
        return member_int(o, narrowed)
    return True

def c_lt_int(k: int, o: int, pos: bool) -> bool:
    """ post: _ """
    V = unite_values(TypedValue(int), KnownValue(None))
    narrowed = constrain_value(V, mk("lt", k, pos))
    if (o < k) == pos:
        return member_int(o, narrowed)
    return True
