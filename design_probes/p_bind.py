import inspect
from pyanalyze.signature import Signature, SigParameter, ParameterKind, ActualArguments, _CanAssignBasedContext
from pyanalyze.stacked_scopes import Composite
from pyanalyze.value import KnownValue, AnyValue, AnySource, TypedValue
from pyanalyze.checker import Checker
CHK = Checker()
K = ParameterKind
# def f(a, /, b, c=1, *args, d, e=2, **kw)
SPEC = [("a", K.POSITIONAL_ONLY, False), ("b", K.POSITIONAL_OR_KEYWORD, False), ("c", K.POSITIONAL_OR_KEYWORD, True),
        ("args", K.VAR_POSITIONAL, False), ("d", K.KEYWORD_ONLY, False), ("e", K.KEYWORD_ONLY, True)]
SIG = Signature.make([SigParameter(n, k, default=KnownValue(1) if d else None) for n, k, d in SPEC], AnyValue(AnySource.explicit))
ISIG = inspect.Signature([inspect.Parameter(n, inspect._ParameterKind(k.value), default=1 if d else inspect.Parameter.empty) for n, k, d in SPEC])
NAMES = ["a", "b", "c", "d", "e", "zz"]

def check(npos: int, ka: bool, kb: bool, kc: bool, kd: bool, ke: bool, kz: bool) -> bool:
    """
    pre: 0 <= npos <= 5
    post: _
    """
    n = 0
    for i in range(6):
        if npos == i:
            n = i
    kws = [nm for nm, f in zip(NAMES, (ka, kb, kc, kd, ke, kz)) if f]
    actual = ActualArguments(positionals=[(True, Composite(KnownValue(i))) for i in range(n)], star_args=None,
        keywords={nm: (True, Composite(KnownValue(0))) for nm in kws}, star_kwargs=None, kwargs_required=False, pos_or_keyword_params=set())
    ctx = _CanAssignBasedContext(CHK)
    bound = SIG.bind_arguments(actual, ctx)
    try:
        ISIG.bind(*range(n), **{nm: 0 for nm in kws})
        ok = True
    except TypeError:
        ok = False
    return (bound is not None) == ok
