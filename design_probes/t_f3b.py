from pyanalyze.test_name_check_visitor import TestNameCheckVisitorBase
from pyanalyze.test_node_visitor import assert_passes
class X(TestNameCheckVisitorBase):
    @assert_passes()
    def test(self):
        from typing import Callable, TypeVar
        T = TypeVar("T")
        def f(x: T, a: Callable[[T], None], b: Callable[[T], None]) -> T:
            a(x); b(x)
            return x
        def takes_int(i: int) -> None: ...
        def takes_str(s: str) -> None: ...
        def capybara():
            reveal_type(f("x", takes_int, takes_str))
            reveal_type(f("x", takes_str, takes_int))
try:
    X().test()
    print("PASSES (no diagnostic)")
except Exception as e:
    print("DIAG:", str(e)[:1500])
