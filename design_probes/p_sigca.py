import inspect
from pyanalyze.signature import Signature, SigParameter, ParameterKind
from pyanalyze.value import KnownValue, AnyValue, AnySource, CanAssignError
from pyanalyze.checker import Checker
CHK = Checker()
K = ParameterKind
ANY = AnyValue(AnySource.explicit)
def mk(spec):
    s = Signature.make([SigParameter(n, k, default=KnownValue(1) if d else None, annotation=ANY) for n, k, d in spec], ANY)
    i = inspect.Signature([inspect.Parameter(n, inspect._ParameterKind(k.value), default=1 if d else inspect.Parameter.empty) for n, k, d in spec])
    return s, i
# expected: def e(a, b): ...   actual: def g(a, /, *args, **kwargs)? choose a suspicious pair:
EXP, IEXP = mk([("a", K.POSITIONAL_OR_KEYWORD, False), ("b", K.POSITIONAL_OR_KEYWORD, False)])
ACT, IACT = mk([("a", K.POSITIONAL_OR_KEYWORD, False), ("args", K.VAR_POSITIONAL, False), ("b", K.KEYWORD_ONLY, False)])
NAMES = ["a", "b", "c"]
def binds(isig, n, kws):
    try:
        isig.bind(*range(n), **{k: 0 for k in kws}); return True
    except TypeError:
        return False
def check(npos: int, ka: bool, kb: bool, kc: bool) -> bool:
    """
    pre: 0 <= npos <= 3
    post: _
    """
    n = 0
    for i in range(4):
        if npos == i:
            n = i
    kws = [nm for nm, f in zip(NAMES, (ka, kb, kc)) if f]
    accepted = not isinstance(EXP.can_assign(ACT, CHK), CanAssignError)
    if accepted and binds(IEXP, n, kws):
        return binds(IACT, n, kws)
    return True
