from pyanalyze.format_strings import parse_format_string
import _string

def ref_ok(s: str) -> bool:
    # pure-python reference of CPython's MarkupIterator validity (depth<=2), simplified
    return _ref(s, 0)

def _ref(s: str, depth: int) -> bool:
    i = 0
    n = len(s)
    while i < n:
        c = s[i]
        if c == "{":
            if i + 1 < n and s[i + 1] == "{" and depth == 0:
                i += 2
                continue
            # parse field until matching }
            if depth >= 2:
                return False
            j = i + 1
            nest = 1
            while j < n:
                if s[j] == "{":
                    nest += 1
                elif s[j] == "}":
                    nest -= 1
                    if nest == 0:
                        break
                j += 1
            if nest != 0:
                return False
            field = s[i + 1 : j]
            if not _field_ok(field, depth):
                return False
            i = j + 1
        elif c == "}":
            if i + 1 < n and s[i + 1] == "}" and depth == 0:
                i += 2
                continue
            return False
        else:
            i += 1
    return True

def _field_ok(f: str, depth: int) -> bool:
    return True

def check(s: str) -> bool:
    """
    pre: len(s) <= 3
    pre: all(c in "{}a" for c in s)
    post: _
    """
    _, errs = parse_format_string(s)
    return (len(errs) == 0) == ref_ok(s)
