import z3, time, re
from re import _parser as sp
import pyanalyze.format_strings as fs

def charset(chars): 
    return z3.Union(*[z3.Re(c) for c in chars]) if len(chars)>1 else z3.Re(chars[0])
ANY = z3.AllChar(z3.ReSort(z3.StringSort()))

def tr(seq):
    parts=[]
    for op, av in seq:
        parts.append(tr1(op, av))
    if not parts: return z3.Re("")
    return z3.Concat(*parts) if len(parts)>1 else parts[0]
def tr_in(items):
    neg=False; alts=[]
    for op, av in items:
        if op is sp.NEGATE: neg=True
        elif op is sp.LITERAL: alts.append(z3.Re(chr(av)))
        elif op is sp.RANGE: alts.append(z3.Range(chr(av[0]), chr(av[1])))
        elif op is sp.CATEGORY:
            if av is sp.CATEGORY_DIGIT: alts.append(z3.Range("0","9"))
            else: raise NotImplementedError(av)
        else: raise NotImplementedError(op)
    r = z3.Union(*alts) if len(alts)>1 else alts[0]
    if neg: r = z3.Intersect(ANY, z3.Complement(r))
    return r
def tr1(op, av):
    if op is sp.LITERAL: return z3.Re(chr(av))
    if op is sp.IN: return tr_in(av)
    if op is sp.ANY: return ANY
    if op is sp.SUBPATTERN: return tr(av[3])
    if op is sp.BRANCH:
        alts=[tr(b) for b in av[1]]
        return z3.Union(*alts) if len(alts)>1 else alts[0]
    if op is sp.NOT_LITERAL: return z3.Intersect(ANY, z3.Complement(z3.Re(chr(av))))
    if op in (sp.MAX_REPEAT, sp.MIN_REPEAT):
        lo, hi, sub = av; r = tr(sub)
        if lo==0 and hi==1: return z3.Option(r)
        if lo==0 and hi==sp.MAXREPEAT: return z3.Star(r)
        if lo==1 and hi==sp.MAXREPEAT: return z3.Plus(r)
        raise NotImplementedError((lo,hi))
    raise NotImplementedError(op)

p = sp.parse(fs._FORMAT_STRING_REGEX, fs._FLAGS)
# structure: pre_match subpattern, then group (BRANCH [spec, AT_END])
items = list(p)
grp = items[1]; assert grp[0] is sp.SUBPATTERN
branch = list(grp[1][3])[0]; assert branch[0] is sp.BRANCH
spec_py = tr(branch[1][1][0])
print("translated spec ok")
# CPython reference (str): % [(key)] flags* (*|digits)? (. (*|digits)?)? [hlL]? type
D = z3.Range("0","9")
key = z3.Concat(z3.Re("("), z3.Star(z3.Intersect(ANY, z3.Complement(charset("()")))), z3.Re(")"))  # no nested parens in this model
spec_c = z3.Concat(z3.Re("%"), z3.Option(key), z3.Star(charset("-+ #0")), z3.Option(z3.Union(z3.Re("*"), z3.Plus(D))),
    z3.Option(z3.Concat(z3.Re("."), z3.Option(z3.Union(z3.Re("*"), z3.Plus(D))))), z3.Option(charset("hlL")), charset("diouxXeEfFgGcrsa%"))
nonpct = z3.Intersect(ANY, z3.Complement(z3.Re("%")))
L_py = z3.Star(z3.Union(nonpct, spec_py)); L_c = z3.Star(z3.Union(nonpct, spec_c))
s = z3.String("s")
for name, a, b in (("py_not_c", L_py, L_c), ("c_not_py", L_c, L_py)):
    sol = z3.Solver(); sol.set("timeout", 60000)
    sol.add(z3.Length(s) <= 8, z3.InRe(s, a), z3.Not(z3.InRe(s, b)))
    t=time.time(); r = sol.check(); print(name, r, sol.model()[s] if str(r)=="sat" else None, round(time.time()-t,2))
# side condition: SPEC_py prefix-free
a = z3.String("a"); b = z3.String("b")
sol = z3.Solver(); sol.set("timeout", 60000)
sol.add(z3.Length(a) + z3.Length(b) <= 10, z3.Length(b) >= 1, z3.InRe(a, spec_py), z3.InRe(z3.Concat(a, b), spec_py))
t=time.time(); r = sol.check(); print("prefix_free_violation", r, sol.model() if str(r)=="sat" else None, round(time.time()-t,2))
