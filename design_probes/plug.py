def _install():
    from crosshair import core
    from crosshair.libimpl import builtinslib
    from crosshair.tracers import NoTracing
    from crosshair.core import CrossHairValue
    _orig = builtinslib._format
    def _format(obj, format_spec=""):
        with NoTracing():
            if isinstance(obj, CrossHairValue) and not isinstance(obj, builtinslib.AnySymbolicStr):
                return "<sym>"
            mod = getattr(type(obj), "__module__", "") or ""
            if mod.startswith("pyanalyze."):
                return "<" + type(obj).__name__ + ">"
        return _orig(obj, format_spec)
    core._PATCH_REGISTRATIONS[format] = _format
_install()
