from pyanalyze.value import TypedValue, LowerBound, UpperBound, CanAssignError
from pyanalyze.typevar import solve
from pyanalyze.checker import Checker
from typing import TypeVar
T = TypeVar("T")
c = Checker()
r = solve([LowerBound(T, TypedValue(str)), UpperBound(T, TypedValue(int)), UpperBound(T, TypedValue(str))], c)
print("solve ->", r)
r2 = solve([LowerBound(T, TypedValue(str)), UpperBound(T, TypedValue(str)), UpperBound(T, TypedValue(int))], c)
print("solve (other order) ->", r2)
