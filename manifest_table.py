"""Source of MANIFEST.json (run tools_manifest.py after editing)."""

_NOTE = ("Trusted: CrossHair 0.0.110 library models + z3 5.1.0; formatting stub (message text outside the claim); "
         "structural cases enumerated inside the bounds listed in the evidence file; 'Not confirmed' results are "
         "reported as inconclusive, never as success; every counterexample is re-executed concretely against /repo "
         "before a VIOLATION line is printed.")

ENGINES = [
    {"name": "xh", "path": "vf/engine.py", "serves_properties": [],
     "kind_free_text": "E1: bounded symbolic execution of the real pyanalyze functions with CrossHair 0.0.110; z3 decides each path's assertion for all values of the symbolic inputs; one harness condition per enumerated structural case, 16 worker processes"},
    {"name": "z3re", "path": "vf/z3re.py", "serves_properties": ["C17"],
     "kind_free_text": "E2: direct z3 regular-expression/string queries on a translation of format_strings._FORMAT_STRING_REGEX regenerated from the live module on every run"},
]

NOTES = ("All checks: ./check <id> --tier quick|thorough. Exit 0 held / 1 VIOLATION / 3 harness error. "
         "known_findings.json lists genuine defects recorded rather than repaired; fixed: entries suppress nothing. "
         "See DESIGN.md.")

CLAIMED = {
    "C01": {
        "design_ref": "DESIGN.md section 5 C01",
        "text": ("Bounded symbolic execution of the container element-access kernels (tuple/list subscript with int and "
                 "slice keys, iterable unpacking, len, dict-literal lookup): for every enumerated member layout the solver "
                 "shows, for all indices (unbounded int) and all run-time lengths of variadic members within the bound, "
                 "that the element Python produces is a member of the inferred value. Kernel-level claim: the visitor "
                 "wiring is outside it."
                 " Fourth round: subscripts whose key is only known to be an int / a slice (known finding C01-K1)."),
        "note": _NOTE,
        "technique": "CrossHair symbolic execution + z3 (bounded model checking of the real functions against Python's own sequence semantics)",
    },
    "C18": {
        "design_ref": "DESIGN.md section 5 C18",
        "text": ("Bounded symbolic execution of the real config parser (_parse_config_section via parse_config_file with an "
                 "in-memory file system), instance ordering and lookup: for every enumerated stack of <= 2 (quick) / <= 3 "
                 "(thorough) chained files with top-level settings, module overrides and disable_all, the solver shows for "
                 "all option values (unbounded ints / bools), command-line presence and 7 queried module paths that the "
                 "effective value equals the documented precedence; 19 kinds of malformed sections must raise for every "
                 "offending value."
                 " (25 kinds since the fourth round: bool for int, disable_all types, extend_config inside an override.)"),
        "note": _NOTE + " File system and tomli.load are replaced by in-memory stubs; TOML syntax, argparse and path resolution are outside the claim.",
        "technique": "CrossHair symbolic execution + z3 against a 25-line precedence oracle written from the documentation",
    },
    "C11": {
        "design_ref": "DESIGN.md section 5 C11",
        "text": ("Bounded symbolic execution of BaseNodeVisitor.show_error's enable / file-level / trailing / own-line ignore "
                 "logic, get_unused_ignores and the unused/bare ignore reporters on files of <= 3 (quick) / <= 4 (thorough) lines "
                 "over 9 line kinds: the solver ranges over line number and code of up to two diagnostics, the enabled flags and "
                 "the text of the comment (code names containing one another), against the projection rules of the statement."
                 " Fourth round: a first line ending in one of 8 characters that str.splitlines() splits at and the tokenizer does not; a string literal containing the ignore text (known finding C11-K1)."),
        "note": _NOTE + " Error-code names are a 3-member test enum (aa, aab, baa); NameCheckVisitor's choice of the node a diagnostic is attached to is outside the claim.",
        "technique": "CrossHair symbolic execution + z3 against a 35-line projection oracle",
    },
    "C16": {
        "design_ref": "DESIGN.md section 5 C16",
        "text": ("Kernel claim. H16a: _apply_changes_to_lines for every deleted subset / number of added lines on files <= 5 lines "
                 "equals the documented Replacement meaning. H16b: the real add-ignores proposal + application loop on 7 file "
                 "layouts with a symbolic diagnostics table reaches zero failures within 2n+2 rounds, keeps statements and the "
                 "syntax tree, and every added comment silences only its own diagnostic (4 known findings stepped around). "
                 "H16c: get_line_range_for_node equals the parser's lineno..end_lineno on 7 multi-line statement shapes."
                 " H16c now covers 13 statement shapes (backslash / same-column continuations, triple-quoted strings with tails, decorated definitions). H16d: ReplacingNodeVisitor.replace_node / remove_node on statements that share their physical lines with other code: no fix, or exactly the intended program. H16e: format_strings.maybe_replace_with_fstring formats like the original % expression for every enumerated value."),
        "note": _NOTE + " The fix producers inside NameCheckVisitor (which node gets which fix) are outside the claim; the generic producers replace_node / remove_node and maybe_replace_with_fstring are inside it since the fourth round.",
        "technique": "CrossHair symbolic execution + z3; fixpoint loop unrolled to 2n+2 rounds",
    },
    "C17": {
        "design_ref": "DESIGN.md section 5 C17",
        "text": ("H17a (direct z3): the %-template regex is read from the live module, translated node by node to a z3 regular "
                 "expression and compared, for every template up to 8 (quick) / 12 (thorough) characters, with a regular model of "
                 "CPython's parser in both directions (unsat = no template in the difference; three known difference classes are "
                 "scoped out and re-found by their own queries). H17b/H17c (CrossHair): argument checking with symbolic payloads "
                 "and parse_format_string on symbolic templates against E3-validated models of CPython."
                 " Fourth round: the regex translator handles \\w \\s \\D classes (ASCII scope); H17b has %% and unkeyed specifiers next to mapping keys and bytes templates with bytes / str keys."),
        "note": _NOTE + " The CPython models are validated against `%` / string.Formatter on all strings <= 4/5 over a 10-character alphabet at the start of every run (E3); a disagreement is a harness error.",
        "technique": "z3 regular-expression inclusion queries on a translation of the live regex + CrossHair symbolic execution",
        "engine": "z3re+xh",
    },
    "C05": {
        "design_ref": "DESIGN.md section 5 C05",
        "text": ("Bounded symbolic execution of preprocess_args + Signature.bind_arguments on every parameter list of <= 3 (quick) / "
                 "<= 4 (thorough) parameters over all kinds and default patterns: the call shape (positional count, keyword presence, "
                 "*tuple / **dict literals, duplicated names, unknown-length *args / **kwargs) is symbolic; the oracle is CPython "
                 "itself - a def generated from the spec is really called with each path's concrete shape; for unknown-length stars "
                 "expansions are enumerated up to length 4 / all name subsets."
                 " Fourth round: positionals written after an unknown-length star-argument (known finding C05-K2)."),
        "note": _NOTE + " E3 checks the generated def against its spec and records where inspect.Signature.bind deviates from a real call (it does in 3.12: positional-only names passed into **kwargs).",
        "technique": "CrossHair symbolic execution + z3; differential against real CPython calls inside each path",
    },
    "C14": {
        "design_ref": "DESIGN.md section 5 C14",
        "text": ("Bounded symbolic execution of unite_values / MultiValuedValue equality and hashing / substitute_typevars / can_assign "
                 "on all ordered pairs of 14 (quick) / 18 (thorough) value shapes and on triples: idempotence, commutativity, "
                 "associativity, no nesting, Never identity, the union accepts each operand and accepts exactly what an operand "
                 "accepts, equal values hash equal, substitution is the identity without type variables, removes every occurrence "
                 "and commutes with uniting - for every payload in the stated range."
                 " Fourth round: two-key TypedDicts in both key orders, a function literal and its substituted copy, CallableValues of two functions with the same signature."),
        "note": _NOTE + " The real hash functions run (no coarse-hash stub), therefore payloads are bounded to [0,1] (quick) / [-2,2] (thorough).",
        "technique": "CrossHair symbolic execution + z3 of the algebraic laws on the real Value classes",
    },
    "C03": {
        "design_ref": "DESIGN.md section 5 C03",
        "text": ("Runtime-API half. For every type expression of the depth-1 vocabulary (depth 2 in thorough) and 22 object kinds, "
                 "the solver shows that Value.can_assign(KnownValue(o)) - what runtime.is_assignable evaluates - equals structural "
                 "membership for all int payloads, Literal constants, Annotated thresholds and TypedDict flags. E3 re-validates at "
                 "every run that the hand-built Values equal type_from_runtime of the typing spelling and that "
                 "runtime.is_assignable agrees on concrete samples."
                 " Fourth round: float / int subclass and complex objects, dicts with a non-str key, Flag members, the bare typing.Tuple / type leaves."),
        "note": _NOTE + " Coarse-hash stub (eq-consistent) for KnownValue and annotated_types checks; the checker's verdict on `x: T = literal` (visitor) is outside the claim.",
        "technique": "CrossHair symbolic execution + z3 against an 80-line structural membership model",
    },
    "C04": {
        "design_ref": "DESIGN.md section 5 C04",
        "text": ("H04a: reflexivity, Never/top/Any laws, union laws and the exclude-Any monotonicity for every class hierarchy: leaves "
                 "are stub atoms under a symbolic preorder (6 booleans, constructive encoding), everything above the leaves is the real "
                 "can_assign code; the verdict is also compared with a reference acceptance. H04b: accepts(A,B) and o in B => o in A on "
                 "pairs of the depth-1 vocabulary with symbolic payloads, thresholds, TypedDict required/readonly flags and a "
                 "symbolic witness object."
                 " H04c: one generic runtime-checkable protocol, five specializations x three implementing classes (typed and as literal instances): histories of two (quick) / three (thorough) queries from an empty compatibility cache, every verdict compared with the member-type reference. H04b also: Annotated wrappers around structural right-hand sides and hand-listed closed TypedDict pairs."),
        "note": _NOTE + " Protocols, callables, TypeVars and the documented leniencies (bare generics, fixed tuple accepting a variadic tuple) are outside the claim.",
        "technique": "CrossHair symbolic execution + z3; symbolic preorder as environment",
    },
    "C02": {
        "design_ref": "DESIGN.md section 5 C02",
        "text": ("Kernel claim on constraint application. Constraints come from the real factories (_constraint_from_compare_op, "
                 "_constraint_from_predicate_provider on a stub self, _isinstance_impl, _len_impl), are inverted / and-ed / or-ed by the "
                 "real algebra and applied by the real constrain_value to 26 value shapes; for every object payload, literal in the "
                 "type and compared constant the solver shows (1) an object of the declared type that takes the branch stays in the "
                 "narrowed type, (2) the narrowed type holds nothing outside the declared and the tested type, (3) always-true / "
                 "always-false boolability verdicts are right for every object of the type."
                 " Fourth round: the same comparisons through the real NameCheckVisitor._visit_single_compare on the stub (constant on the left / right), `x in 'ab'`, enum.Flag values, bare `type` against issubclass with a tuple."),
        "note": _NOTE + " How the visitor selects the constraint for a syntax tree, TypeIs/TypeGuard and match patterns are outside the claim.",
        "technique": "CrossHair symbolic execution + z3; Python's own evaluation of the condition on the symbolic object is the oracle",
    },
    "C08": {
        "design_ref": "DESIGN.md section 5 C08",
        "text": ("The real OverloadedSignature.check_call runs on overload sets of 2-3 (4 in thorough) signatures whose annotations are "
                 "stub atoms under a symbolic preorder (every class hierarchy on 3 leaves); verdict and return type are compared "
                 "with a reference resolver written from the statement: first match without Any/union, union distribution for one "
                 "union argument (positional or keyword), Any never selecting one overload when several match."
                 " Fourth round: three-member unions against three overloads, overloads with typed *args / **kwargs, arguments arriving through *seq."),
        "note": _NOTE + " A minimal visitor supplies catch_errors/show_error; building OverloadedSignature from @overload definitions is outside the claim.",
        "technique": "CrossHair symbolic execution + z3; symbolic preorder as environment; 40-line reference resolver",
    },
    "C07": {
        "design_ref": "DESIGN.md section 5 C07",
        "text": ("H07a: Signature.can_assign / CallableValue.can_assign decide acceptance of (expected, actual) signature pairs over all "
                 "parameter kinds, defaults and names; for every call shape (symbolic positional count and keyword presence) accepted "
                 "and expected-binds implies actual-binds, with CPython itself as binder (generated defs are really called). H07b: "
                 "typed parameters/returns are atoms under a symbolic preorder; accepted implies contravariant parameters along the "
                 "real binding and a covariant return."
                 " Fourth round: typed *args / **kwargs are stored as tuple[T, ...] / dict[str, T] (earlier versions passed bare atoms, which made those typed pairs vacuous); every single-parameter pair is in every tier."),
        "note": _NOTE + " Entry points that fetch signatures from function objects / protocols / overrides (visitor) are outside the claim.",
        "technique": "CrossHair symbolic execution + z3; differential against real CPython calls; symbolic preorder",
    },
    "C06": {
        "design_ref": "DESIGN.md section 5 C06",
        "text": ("Kernel claim on Signature.check_call_preprocessed: for plain / defaulted (also with a default outside its annotation) / "
                 "T-generic signatures over stub atoms under a symbolic preorder, diagnosed <=> some explicitly passed argument is not "
                 "accepted by its parameter type; for generic signatures an accepted call's solution makes every argument acceptable "
                 "and respects bound / constraints; with real constructors (Literal, Annotated[int, Gt], Optional, list, tuple) and "
                 "literal arguments with unbounded payloads, diagnosed <=> not a member."
                 " H06c: every parameter kind with typed *args / **kwargs and keywords colliding with positional-only / variadic names, binding decided by a real call of a generated def; h06_dup: repeated keys in **{...}; an explicit argument that is the very Value object of the default."),
        "note": _NOTE + " Methods, constructors, dataclasses, impl functions and allow_call evaluation are outside the claim.",
        "technique": "CrossHair symbolic execution + z3; symbolic preorder; membership model",
    },
    "C15": {
        "design_ref": "DESIGN.md section 5 C15",
        "text": ("Call-level claim: generic signatures with 1-3 parameters from {T, list[T], Callable[[T], None], Callable[[], T]} and plain / "
                 "bounded / constrained T are checked by the real call path (both compatibility passes, unify_bounds_maps, "
                 "resolve_bounds_map, solve) over stub atoms under a symbolic preorder; in one path every permutation of the parameter "
                 "list is evaluated: same verdict for all orders; an accepted call's solution accepts all lower bounds, is accepted by all "
                 "upper bounds / the declared bound, and is a constraint when constraints exist; a call with no feasible value is diagnosed."
                 " H15c (solver entry point named in observe_at): multisets of 2-3 (quick) / 4 (thorough) lower / upper bounds resolved by typevar.resolve_bounds_map in every order: order-independent verdict, solution accepts every lower bound and is accepted by every upper bound (known finding C15-K2 with several upper bounds)."),
        "note": _NOTE + " A solve()-only obligation is deliberately not claimed (its counterexample is rescued by the caller's second pass - DESIGN.md section 7 F3).",
        "technique": "CrossHair symbolic execution + z3; symbolic preorder; all permutations inside one path",
    },
    "C20": {
        "design_ref": "DESIGN.md section 5 C20",
        "text": ("The real Evaluator.evaluate (EvaluateVisitor + ConditionEvaluator) runs on bodies generated from the restricted grammar "
                 "(if/elif/else depth 2, and/or/not, is_of_type with and without exclude_any=False, == / is None, is_provided / "
                 "is_positional / is_keyword, sys.version_info >= (3, N), return, show_error) with two parameters; atoms are under a "
                 "symbolic preorder, literals / compared constant / N are symbolic. Chosen branches, show_error set and result equal a "
                 "reference interpreter for atomic arguments lifted to unions member-wise, as the specification prescribes."
                 " Fourth round: nested fall-through bodies; known finding C20-K1 (no fall-through narrowing after a partially matching if-return; over-approximation only)."),
        "note": _NOTE + " Evaluator is subclassed only to resolve the names of the generated bodies; positions fed from binding (signature.py) are enumerated, not derived.",
        "technique": "CrossHair symbolic execution + z3; symbolic preorder; 70-line reference interpreter from docs/type_evaluation.md",
    },
    "C12": {
        "design_ref": "DESIGN.md sections 6 and 10.10",
        "text": ("VALUE-API HALF ONLY (second sentence of the statement): for ordered pairs of well-formed values from the C14 shapes and "
                 "the depth-1 type vocabulary, can_assign in both directions (also in exclude-Any mode), unite_values and "
                 "substitute_typevars return a result of the documented type instead of raising, for every payload in the bound. The "
                 "first half - the checker never crashes on any syntactically valid module - runs through NameCheckVisitor, which "
                 "cannot be executed symbolically here, and is NOT covered."
                 " Fourth round: unions of 11-12 literals and unhashable list / dict / set literals."),
        "note": _NOTE + " Callables, protocols and synthetic types are outside; payloads bounded to [0,1] because KnownValue.substitute_typevars realises its payload.",
        "technique": "CrossHair symbolic execution + z3; any escaping exception is a counterexample",
    },
}

_PENDING = "harness not landed yet in this commit (build in progress; see DESIGN.md section 9)"

NA = {
    "C09": "reaching definitions live in the composition of scope calls made by the 6100-line visitor, which cannot be executed symbolically here (every path aborts); inputs are program skeletons with no solver-representable data (DESIGN.md section 6)",
    "C10": "nondeterminism sits in CPython's C hash tables / per-process hash seed and in checker-wide caches filled by whole-file runs; CrossHair realises at that boundary, so no symbolic encoding of iteration order is within reach (DESIGN.md section 6)",
    "C13": "inputs are typing objects, AST trees and inspect signatures dispatched by identity across C boundaries; nothing for a solver to range over - would degenerate to a differential test (DESIGN.md section 6)",
    "C19": "known operands are operated on by real C slot wrappers that reject symbolic proxies; dispatch lives in the visitor; the only symbolic-friendly sub-kernel (literal tuple subscripts) is covered under C01 (DESIGN.md section 6)",
}
for _p in ["C02", "C03", "C04", "C05", "C06", "C07", "C08", "C11", "C14", "C15", "C16", "C17", "C18", "C20"]:
    if _p not in CLAIMED:
        NA[_p] = _PENDING
