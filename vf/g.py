"""Per-process harness state shared between the engine worker and harness modules.

A harness function is analysed once per *structural case*; the case is a plain Python
object stored here by the worker before the analysis starts (it is concrete, so reading it
under tracing does not fork).  `twin` switches every harness into its reachability twin:
`fin(ok)` then returns False on every path that reaches the assertion, so CrossHair must
come back with a counterexample (vacuity guard).  `exclude` holds the known-finding
regions (python predicates over the harness' named inputs) that the run must step around so
that a *different* violation of the same property is still reported.
"""

from typing import Any, Callable, Dict, List, Optional


class _G:
    case: Any = None
    twin: bool = False
    exclude: List[Callable[[Dict[str, Any]], bool]] = []
    notes: List[str] = []


G = _G()


def fin(ok, nontrivial: bool = True):
    """Every harness returns through here.

    main mode: the assertion value itself.
    twin mode: False on paths that really evaluated the assertion (nontrivial=True), True on
    paths that left early because the inputs were outside the obligation.
    """
    if G.twin:
        return not nontrivial
    return ok


def skip():
    """Return value for paths outside the obligation (never a twin witness)."""
    return True


def excluded(**named) -> bool:
    for pred in G.exclude:
        try:
            if pred(named):
                return True
        except NameError:
            # the predicate speaks about inputs this call site does not name
            continue
    return False


def untraced(fn, *a, **k):
    """Call a real (C-implemented) function on concrete arguments outside CrossHair's interception,
    so that CPython itself answers, not CrossHair's model of it.  Works with and without tracing."""
    try:
        from crosshair.tracers import NoTracing, is_tracing
    except Exception:  # noqa
        return fn(*a, **k)
    if is_tracing():
        with NoTracing():
            return fn(*a, **k)
    return fn(*a, **k)
