"""E1 engine: bounded symbolic execution of harness functions with CrossHair + z3.

The driver process never imports pyanalyze.  Worker processes import the property module
(which imports pyanalyze from /repo's working tree at that moment), receive one job at a
time (template, structural case, mode) and answer with the solver's verdict.

Verdicts per condition
  confirmed     CrossHair exhausted the path tree; z3 proved the postcondition on each path
  refuted       counterexample (postcondition False or exception) - replayed concretely
  unknown       budget ended with unexplored paths           -> inconclusive
  pre_unsat     no path got past the preconditions           -> harness error (vacuity)
  hung/crash    the worker died or overran its wall limit    -> inconclusive
"""

from __future__ import annotations

import dataclasses
import hashlib
import importlib
import json
import multiprocessing as mp
import os
import re
import sys
import time
import traceback
from dataclasses import dataclass, field
from multiprocessing.connection import wait as conn_wait
from typing import Any, Dict, List, Optional, Sequence, Tuple

VERIF = os.path.dirname(os.path.dirname(os.path.abspath(__file__)))
NWORKERS = int(os.environ.get("VERIF_WORKERS", "16"))


@dataclass
class Case:
    template: str  # name of the harness function in the property module
    label: str  # unique id of the structural case
    data: Any  # picklable concrete structure handed to the harness through G.case
    timeout: float = 30.0  # CrossHair per-condition budget (CPU seconds)
    twin: bool = True  # run the reachability twin for this case
    vacuous_ok: bool = False  # a confirmed twin (no input reaches the obligation) is recorded, not an error
    per_path: Optional[float] = None


# ---------------------------------------------------------------------------------------
# worker side
# ---------------------------------------------------------------------------------------

_Z3 = {"queries": 0, "time": 0.0}


def _install_worker_patches():
    import crosshair.core_and_libs  # noqa: F401  registers the standard library models
    from crosshair import core
    from crosshair.core import CrossHairValue
    from crosshair.libimpl import builtinslib
    from crosshair.tracers import NoTracing

    _orig = builtinslib._format

    def _format(obj, format_spec=""):
        # Message text is outside every claim: formatting a symbolic payload would realise it
        # (turning each rejected path into an enumeration of concrete integers).
        with NoTracing():
            if isinstance(obj, CrossHairValue) and not isinstance(
                obj, builtinslib.AnySymbolicStr
            ):
                return "<sym>"
            mod = getattr(type(obj), "__module__", "") or ""
            if mod.startswith("pyanalyze.") or mod.startswith("vf."):
                return "<" + type(obj).__name__ + ">"
        return _orig(obj, format_spec)

    core._PATCH_REGISTRATIONS[format] = _format

    _orig_repr = core._PATCH_REGISTRATIONS.get(repr)

    def _repr(obj):
        # f"{value!r}" in error messages: same reasoning as for format
        with NoTracing():
            if isinstance(obj, CrossHairValue):
                return "<sym>"
        if _orig_repr is not None:
            return _orig_repr(obj)
        return repr(obj)

    core._PATCH_REGISTRATIONS[repr] = _repr

    # CrossHair may replace a call to any function that carries a contract by a fresh symbolic
    # return value ("short-circuiting"); its own patch for the builtin `hash` has such a contract,
    # so every hash() call in the code under test became a random binary decision (and aborted
    # paths with "proxy intolerance").  The harnesses want the real callee executed, always.
    core.ShortCircuitingContext.make_interceptor = lambda self, original: original

    # `set.intersection(*sets)` (unbound descriptor, used by type_evaluation.unite_varmaps) rejects
    # CrossHair's set proxies with a TypeError that does not exist outside tracing: route the unbound
    # call to the bound method of the first operand.
    def _set_intersection(first, *rest):
        return first.intersection(*rest)

    def _set_union(first, *rest):
        return first.union(*rest)

    try:
        core.register_patch(set.intersection, _set_intersection)
        core.register_patch(set.union, _set_union)
    except Exception:  # noqa
        core._PATCH_REGISTRATIONS[set.intersection] = _set_intersection
        core._PATCH_REGISTRATIONS[set.union] = _set_union

    # CrossHair sometimes "prematurely realizes" a fresh symbolic argument (a bug-finding heuristic
    # implemented as a parallel search node): for exhaustive confirmation it only adds iterations that
    # enumerate concrete values.  Always take the symbolic branch.
    if os.environ.get("VERIF_KEEP_PREMATURE") != "1":
        from crosshair import statespace as _ss

        _orig_fork_parallel = _ss.StateSpace.fork_parallel

        def _fork_parallel(self, false_probability, desc=""):
            if desc.startswith("premature realize"):
                return False
            return _orig_fork_parallel(self, false_probability, desc)

        _ss.StateSpace.fork_parallel = _fork_parallel

    import z3

    _check = z3.Solver.check

    def check(self, *a, **k):
        t0 = time.perf_counter()
        try:
            return _check(self, *a, **k)
        finally:
            _Z3["queries"] += 1
            _Z3["time"] += time.perf_counter() - t0

    z3.Solver.check = check


_CE_RE = re.compile(r"when calling (.*)$", re.S)


def _extract_call(message: str) -> Optional[str]:
    m = _CE_RE.search(message)
    if not m:
        return None
    call = m.group(1)
    idx = call.rfind(" (which returns ")
    if idx >= 0:
        call = call[:idx]
    return call.strip()


def _eval_call(mod, fn, call_src: str):
    """Evaluate CrossHair's `f(arg, v1:=(), v1)` text into (args, kwargs)."""
    rec = {}

    def recorder(*a, **k):
        rec["a"] = a
        rec["k"] = k
        return None

    ns = dict(vars(mod))
    ns[fn.__name__] = recorder
    eval(compile(call_src, "<counterexample>", "eval"), ns)
    return rec["a"], rec["k"]


def _compile_excludes(preds: Sequence[str]):
    out = []
    for src in preds:
        code = compile(src, "<known-finding>", "eval")

        def pred(named, code=code):
            return eval(code, {"__builtins__": __builtins__}, dict(named))

        out.append(pred)
    return out


def _concrete(mod, fn, call_src: str) -> Dict[str, Any]:
    """Re-execute the harness on concrete arguments, no tracing."""
    from vf.g import G

    try:
        args, kwargs = _eval_call(mod, fn, call_src)
    except BaseException as e:  # noqa
        return {"ran": False, "error": f"cannot evaluate counterexample text: {e!r}"}
    try:
        val = fn(*args, **kwargs)
        return {"ran": True, "value": bool(val), "raised": None}
    except Exception as e:
        return {
            "ran": True,
            "value": None,
            "raised": f"{type(e).__name__}: {e}",
            "tb": traceback.format_exc(limit=8),
        }


def _analyze(mod, fn, job) -> Dict[str, Any]:
    from crosshair.condition_parser import condition_parser
    from crosshair.core import (
        ConditionCheckable,
        MessageType,
        analyze_calltree,
        analyze_function,
    )
    from crosshair.options import DEFAULT_OPTIONS, AnalysisKind, AnalysisOptionSet
    from crosshair.statespace import VerificationStatus
    import collections

    timeout = float(job["timeout"])
    per_path = job.get("per_path") or max(5.0, timeout / 3.0)
    optset = AnalysisOptionSet(
        analysis_kind=[AnalysisKind.PEP316],
        per_condition_timeout=timeout,
        per_path_timeout=per_path,
        report_all=True,
    )
    checkables = analyze_function(fn, optset)
    conds = [c for c in checkables if isinstance(c, ConditionCheckable)]
    if len(conds) != 1:
        return {
            "status": "harness_error",
            "detail": f"expected exactly one checkable condition on {fn.__name__}, got {checkables!r}",
        }
    cc = conds[0]
    options = cc.options
    options.stats = collections.Counter()
    options.deadline = time.process_time() + options.per_condition_timeout
    z0q, z0t = _Z3["queries"], _Z3["time"]
    c0 = time.process_time()
    with condition_parser(options.analysis_kind):
        analysis = analyze_calltree(options, cc.conditions)
    cpu = time.process_time() - c0
    out: Dict[str, Any] = {
        "cpu_s": round(cpu, 3),
        "paths": int(options.stats.get("num_paths", 0)),
        "confirmed_paths": int(analysis.num_confirmed_paths),
        "z3_queries": _Z3["queries"] - z0q,
        "z3_s": round(_Z3["time"] - z0t, 3),
        "messages": [
            {"state": m.state.name, "message": m.message, "line": m.line}
            for m in analysis.messages
        ],
    }
    states = [m.state for m in analysis.messages]
    if MessageType.PRE_UNSAT in states:
        out["status"] = "pre_unsat"
    elif any(
        s in (MessageType.POST_FAIL, MessageType.EXEC_ERR, MessageType.POST_ERR)
        for s in states
    ):
        out["status"] = "refuted"
    elif analysis.verification_status is VerificationStatus.CONFIRMED:
        out["status"] = "confirmed"
    elif analysis.verification_status is VerificationStatus.UNKNOWN:
        out["status"] = "unknown"
    else:
        out["status"] = "unknown"
        out["detail"] = f"status {analysis.verification_status} with messages {states}"
    return out


def run_job(job: Dict[str, Any]) -> Dict[str, Any]:
    from vf.g import G

    mod = importlib.import_module(job["module"])
    G.case = job["data"]
    G.twin = False
    G.exclude = _compile_excludes(job.get("exclude", ()))
    G.notes = []
    prep = getattr(mod, "prepare", None)
    if prep is not None:
        try:
            prep(job["template"], job["data"])
        except Exception as e:  # noqa
            # the concrete warm-up runs the harness once; when the code under test raises there, the traced run
            # below meets the same exception and reports it (with a replay) instead of a harness error here
            G.notes.append(f"prepare raised {type(e).__name__}: {e}")
    fn = getattr(mod, job["template"])
    mode = job["mode"]
    if mode == "replay":
        G.exclude = []
        res = _concrete(mod, fn, job["call"])
        res["status"] = "replayed"
        pub = getattr(mod, "public_replay", None)
        if pub is not None and res.get("ran"):
            try:
                a, k = _eval_call(mod, fn, job["call"])
                res["public"] = pub(job["template"], job["data"], a, k)
            except Exception as e:
                res["public"] = {"error": f"{type(e).__name__}: {e}"}
        return res
    G.twin = mode == "twin"
    out = _analyze(mod, fn, job)
    G.twin = False
    if out.get("status") == "refuted":
        call = None
        for m in out["messages"]:
            if m["state"] in ("POST_FAIL", "EXEC_ERR", "POST_ERR"):
                call = _extract_call(m["message"])
                if call:
                    out["ce_message"] = m["message"]
                    break
        out["call"] = call
        if call is None:
            out["replay"] = {"ran": False, "error": "no call text in message"}
        else:
            saved = G.exclude
            if mode == "main":
                # the replay decides reproduction on the *unexcluded* harness
                G.exclude = []
            out["replay"] = _concrete(mod, fn, call)
            G.exclude = saved
            if mode == "main":
                pub = getattr(mod, "public_replay", None)
                if pub is not None:
                    try:
                        a, k = _eval_call(mod, fn, call)
                        out["public"] = pub(job["template"], job["data"], a, k)
                    except Exception as e:
                        out["public"] = {"error": f"{type(e).__name__}: {e}"}
    out["notes"] = list(G.notes)
    return out


def _redirect_c_stderr() -> None:
    """z3 prints internal diagnostics ("ASSERTION VIOLATION / File: ... lar_solver.cpp") straight to the C-level
    stderr of the worker; the worker is then restarted and the case reported as inconclusive.  Keep that text out of
    the check's own output (a line containing the word VIOLATION must only ever be the engine's verdict line)."""
    try:
        work = os.path.join(VERIF, ".work")
        os.makedirs(work, exist_ok=True)
        fd = os.open(os.path.join(work, "worker_stderr.log"), os.O_WRONLY | os.O_CREAT | os.O_APPEND, 0o644)
        os.dup2(fd, 2)
        os.close(fd)
    except OSError:
        pass


def worker_main(conn, module: str):
    try:
        _redirect_c_stderr()
        sys.setrecursionlimit(10000)
        _install_worker_patches()
        importlib.import_module(module)
        conn.send({"ready": True})
    except BaseException as e:  # noqa
        conn.send({"ready": False, "error": traceback.format_exc()})
        return
    while True:
        try:
            job = conn.recv()
        except EOFError:
            return
        if job is None:
            return
        try:
            res = run_job(job)
        except BaseException as e:  # noqa
            res = {"status": "worker_exception", "detail": traceback.format_exc()}
        res["job_id"] = job["job_id"]
        try:
            conn.send(res)
        except Exception as e:
            conn.send(
                {
                    "job_id": job["job_id"],
                    "status": "worker_exception",
                    "detail": f"unpicklable result: {e!r}",
                }
            )


# ---------------------------------------------------------------------------------------
# driver side
# ---------------------------------------------------------------------------------------


class Pool:
    def __init__(self, module: str, n: int):
        self.module = module
        self.ctx = mp.get_context("spawn")
        self.n = n
        self.workers: List[Dict[str, Any]] = []

    def _spawn(self):
        parent, child = self.ctx.Pipe()
        p = self.ctx.Process(target=worker_main, args=(child, self.module), daemon=True)
        p.start()
        child.close()
        return {"proc": p, "conn": parent, "job": None, "ready": False, "t0": time.time()}

    def run(self, jobs: List[Dict[str, Any]], on_result) -> None:
        pending = list(reversed(jobs))
        n = min(self.n, max(1, len(jobs)))
        self.workers = [self._spawn() for _ in range(n)]
        inflight = 0
        startup_errors = 0
        while pending or inflight:
            for w in self.workers:
                if w["ready"] and w["job"] is None and pending:
                    job = pending.pop()
                    w["job"] = job
                    w["t0"] = time.time()
                    w["conn"].send(job)
                    inflight += 1
            conns = [w["conn"] for w in self.workers]
            ready = conn_wait(conns, timeout=0.5)
            now = time.time()
            for i, w in enumerate(self.workers):
                if w["conn"] in ready:
                    try:
                        msg = w["conn"].recv()
                    except (EOFError, ConnectionResetError, OSError):
                        msg = None
                    if msg is None:
                        # worker died
                        job = w["job"]
                        exitcode = w["proc"].exitcode
                        w["proc"].join(timeout=1)
                        self.workers[i] = self._spawn()
                        if job is not None:
                            inflight -= 1
                            on_result(
                                job,
                                {
                                    "status": "crash",
                                    "detail": f"worker exited (code {w['proc'].exitcode})",
                                },
                            )
                        else:
                            startup_errors += 1
                            if startup_errors > 3 * self.n:
                                raise RuntimeError("workers keep dying at start-up")
                        continue
                    if "ready" in msg:
                        if not msg["ready"]:
                            raise RuntimeError(
                                "worker could not import the property module:\n"
                                + msg.get("error", "")
                            )
                        w["ready"] = True
                        continue
                    job = w["job"]
                    w["job"] = None
                    inflight -= 1
                    on_result(job, msg)
                elif w["job"] is not None:
                    limit = w["job"]["timeout"] * 3 + 60
                    if now - w["t0"] > limit:
                        job = w["job"]
                        try:
                            w["proc"].kill()
                        except Exception:
                            pass
                        w["proc"].join(timeout=2)
                        self.workers[i] = self._spawn()
                        inflight -= 1
                        on_result(
                            job,
                            {"status": "hung", "detail": f"no answer after {limit:.0f}s wall"},
                        )
        for w in self.workers:
            try:
                w["conn"].send(None)
            except Exception:
                pass
        for w in self.workers:
            w["proc"].join(timeout=2)
            if w["proc"].is_alive():
                w["proc"].kill()


def load_known(prop_id: str) -> List[Dict[str, Any]]:
    path = os.path.join(VERIF, "known_findings.json")
    if not os.path.exists(path):
        return []
    with open(path) as f:
        data = json.load(f)
    return [e for e in data.get("findings", []) if e.get("property") == prop_id]


def _matches(entry: Dict[str, Any], case: Case) -> bool:
    if entry.get("template") != case.template:
        return False
    pat = entry.get("case", ".*")
    return re.fullmatch(pat, case.label) is not None


@dataclass
class RunOutcome:
    prop_id: str
    tier: str
    seed: int
    cases: List[Case]
    results: Dict[str, Dict[str, Any]] = field(default_factory=dict)  # label -> main result
    twins: Dict[str, Dict[str, Any]] = field(default_factory=dict)
    known_lines: List[str] = field(default_factory=list)
    violations: List[Dict[str, Any]] = field(default_factory=list)
    harness_errors: List[str] = field(default_factory=list)
    wall_s: float = 0.0


def run_cases(prop_id: str, module: str, cases: List[Case], tier: str, seed: int,
              all_cases_for_witness: Optional[List[Case]] = None, log=print) -> RunOutcome:
    t0 = time.time()
    known = load_known(prop_id)
    out = RunOutcome(prop_id, tier, seed, cases)
    labels = set()
    for c in cases:
        if c.label in labels:
            raise RuntimeError(f"duplicate case label {c.label}")
        labels.add(c.label)
    jobs: List[Dict[str, Any]] = []
    by_id: Dict[int, Tuple[str, Any]] = {}

    def add(job, tag):
        job["job_id"] = len(by_id)
        by_id[job["job_id"]] = tag
        jobs.append(job)

    # longest first, so that the tail of the run is short jobs
    for c in sorted(cases, key=lambda c: -c.timeout):
        excl = [e["when"] for e in known if _matches(e, c) and e.get("when")]
        add(
            {"module": module, "template": c.template, "data": c.data, "mode": "main",
             "timeout": c.timeout, "per_path": c.per_path, "exclude": excl},
            ("main", c),
        )
        if c.twin:
            add(
                {"module": module, "template": c.template, "data": c.data, "mode": "twin",
                 "timeout": min(c.timeout, 30.0), "per_path": c.per_path, "exclude": excl},
                ("twin", c),
            )
    # known-finding witnesses: concrete replays, printed as KNOWN-FINDING when they reproduce
    lookup = {c.label: c for c in (all_cases_for_witness or cases)}
    for e in known:
        w = e.get("witness")
        if not w or e.get("engine", "xh") != "xh":
            continue
        c = lookup.get(w["case"])
        if c is None:
            out.harness_errors.append(
                f"known finding {e.get('id')}: witness case {w['case']} is not generated any more"
            )
            continue
        add(
            {"module": module, "template": c.template, "data": c.data, "mode": "replay",
             "timeout": 60.0, "call": w["call"]},
            ("witness", e),
        )

    done = [0]

    def on_result(job, res):
        kind, obj = by_id[job["job_id"]]
        done[0] += 1
        if kind == "main":
            out.results[obj.label] = res
            st = res.get("status")
            if st not in ("confirmed",):
                log(f"  [{done[0]}/{len(jobs)}] {obj.template}:{obj.label}: {st} "
                    f"{res.get('ce_message') or res.get('detail') or ''}"[:400])
        elif kind == "twin":
            out.twins[obj.label] = res
            if res.get("status") != "refuted":
                log(f"  [{done[0]}/{len(jobs)}] twin {obj.template}:{obj.label}: {res.get('status')} {res.get('detail') or ''}"[:300])
        else:
            e = obj
            fails = res.get("ran") and (res.get("value") is False or res.get("raised"))
            if fails:
                out.known_lines.append(
                    f"KNOWN-FINDING: property={prop_id} {e.get('id')}: {e.get('what')}"
                )
            else:
                log(f"  note: known finding {e.get('id')} no longer reproduces ({res})"[:300])

    if jobs:
        Pool(module, NWORKERS).run(jobs, on_result)

    # classify
    for c in cases:
        r = out.results.get(c.label, {"status": "missing"})
        st = r.get("status")
        if st == "refuted":
            rep = r.get("replay") or {}
            reproduced = rep.get("ran") and (rep.get("value") is False or rep.get("raised"))
            if not reproduced:
                out.harness_errors.append(
                    f"{c.template}:{c.label}: counterexample {r.get('call')} did not reproduce concretely ({rep})"
                )
            else:
                out.violations.append({"case": c, "result": r})
        elif st == "pre_unsat":
            out.harness_errors.append(f"{c.template}:{c.label}: unable to meet precondition (vacuous harness)")
        elif st in ("harness_error", "worker_exception", "missing"):
            out.harness_errors.append(f"{c.template}:{c.label}: {st}: {r.get('detail')}")
        if c.twin:
            t = out.twins.get(c.label, {"status": "missing"})
            tst = t.get("status")
            if tst == "refuted":
                # the twin's witness, run on the real code without tracing, must satisfy the property
                rep = t.get("replay") or {}
                # (the replay runs the harness in main mode: the property must hold on the witness)
                t["witness_ok"] = bool(rep.get("ran") and rep.get("value") is True)
            elif tst == "confirmed" and any(_matches(e, c) and e.get("when") for e in known):
                # every input of this case lies inside a listed known-finding region: nothing is
                # left to check here (the case is not counted as non-trivial)
                t["fully_excluded"] = True
            elif tst == "confirmed" and c.vacuous_ok:
                # structurally vacuous combination (e.g. no object of the declared type can take this
                # branch): nothing to check; the case is not counted as non-trivial
                t["vacuous"] = True
            elif tst in ("confirmed", "pre_unsat"):
                out.harness_errors.append(
                    f"{c.template}:{c.label}: reachability twin came back {tst}: the assertion is never reached"
                )
            elif tst in ("harness_error", "worker_exception", "missing"):
                out.harness_errors.append(f"{c.template}:{c.label}: twin {tst}: {t.get('detail')}")
    out.wall_s = time.time() - t0
    return out


def save_replay(prop_id: str, module: str, case: Case, result: Dict[str, Any]) -> str:
    d = os.path.join(VERIF, "replays", prop_id)
    os.makedirs(d, exist_ok=True)
    payload = {
        "property": prop_id,
        "module": module,
        "template": case.template,
        "case": case.label,
        "data": case.data,
        "call": result.get("call"),
        "message": result.get("ce_message"),
        "concrete_replay": result.get("replay"),
        "public_route": result.get("public"),
    }
    blob = json.dumps(payload, sort_keys=True, default=repr)
    h = hashlib.sha1(blob.encode()).hexdigest()[:12]
    path = os.path.join(d, f"{h}.json")
    with open(path, "w") as f:
        json.dump(payload, f, indent=1, sort_keys=True, default=repr)
    return path
