"""C20 - type evaluation functions follow their specification.

The real `type_evaluation.Evaluator.evaluate` (EvaluateVisitor, ConditionEvaluator with all its visit
methods, decompose_union, can_assign_maybe_exclude_any, unite_varmaps, subtract_unions,
CombinedReturn) runs on evaluator bodies generated from the restricted grammar.  `Evaluator` is
subclassed only to map the names used in the generated bodies to stub atoms / literals (the real
subclass lives in annotations.py and needs the visitor).

Oracle: a reference interpreter written from docs/type_evaluation.md for *atomic* arguments (every
condition is then plainly true or false), lifted to unions by the specification's rule "the result is
the union of the results for each member evaluated separately".
"""

from __future__ import annotations

import ast
import itertools
import sys
from typing import Dict, List, Optional, Tuple

from pyanalyze.type_evaluation import ARGS, DEFAULT, KWARGS, UNKNOWN, EvalContext, Evaluator
from pyanalyze.value import AnySource, AnyValue, KnownValue, MultiValuedValue, Value, flatten_values

from vf.common import Atom, Rel, get_checker, install_coarse_hash, ref_accepts
from vf.engine import Case
from vf.g import G, excluded, fin, skip

ID = "C20"
FUNCTIONS_ENCODED = [
    "pyanalyze.type_evaluation.Evaluator.evaluate / EvaluateVisitor (visit_block, visit_If, visit_Return, visit_show_error, _evaluate_ret)",
    "pyanalyze.type_evaluation.ConditionEvaluator (visit_Call: is_provided / is_positional / is_keyword / is_of_type, visit_is_of_type, visit_UnaryOp, visit_Compare, visit_BoolOp)",
    "pyanalyze.type_evaluation.decompose_union / can_assign_maybe_exclude_any / unite_varmaps / subtract_unions / CombinedReturn / EvalContext.narrow_variables",
    "pyanalyze.stacked_scopes.constrain_value + predicates.IsAssignablePredicate (narrowing inside the evaluator)",
]
BOUNDS = {
    "quick": {"bodies": "if / elif / else up to depth 2 over conditions of depth <= 2 (is_of_type on two atoms with and without exclude_any=False, ==, is None, is_provided / is_positional / is_keyword, sys.version_info >= (3, N), and / or / not), return of a marker type, show_error; a rotating sample",
              "arguments": "two parameters; atoms, unions of two atoms, Any, literals (symbolic ints), None; positions positional / keyword / default / *args / **kwargs / unknown",
              "relation": "every preorder on 3 atoms; literal, compared constant and minor version N symbolic"},
    "thorough": {"bodies": "all generated bodies", "arguments": "same", "relation": "same"},
}
OUTSIDE = ["how signature.py feeds positions from binding (covered structurally by C05)", "validation-mode diagnostics", "generic evaluators (type variables in the body)", "reveal_type inside evaluators"]
STUBS = ["Evaluator subclass mapping names of the generated body to atoms / markers / literals", "stub atoms with a symbolic preorder", "coarse-hash stub for KnownValue payloads"]
ASSUMPTIONS = ["reference interpreter (70 lines) implements the definitions of docs/type_evaluation.md for atomic arguments"]

RS = {f"R{i}": KnownValue(f"r{i}") for i in range(4)}
RET_ANN = KnownValue("r_default")


class Ev(Evaluator):
    def __init__(self, node, ret, env):
        super().__init__(node, ret)
        self.env = env

    def evaluate_type(self, node):
        if isinstance(node, ast.Constant) and node.value is None:
            return KnownValue(None)
        return self.env[node.id]

    def evaluate_value(self, node):
        if isinstance(node, ast.Constant):
            return KnownValue(node.value)
        if isinstance(node, ast.Name):
            return self.env[node.id]
        raise AssertionError(ast.dump(node))


_NODE = None


def prepare(template, data):
    global _NODE
    get_checker()
    install_coarse_hash()
    _NODE = ast.parse(data["body"]).body[0]
    saved = G.case
    G.case = data
    try:
        h20(False, False, False, False, False, False, 0, 1, 9)
        h20(True, True, True, True, True, True, 1, 1, 12)
    finally:
        G.case = saved


# ----------------------------------------------------------------------------------------
# reference interpreter for atomic arguments
# ----------------------------------------------------------------------------------------


def _is_any(v) -> bool:
    return isinstance(v, AnyValue)


def ref_is_of_type(rel, v: Value, typ: Value, exclude_any: bool) -> bool:
    """atomic v: Any matches only Any unless exclude_any=False; literals by type-and-value equality"""
    if _is_any(typ):
        return True
    if _is_any(v):
        return not exclude_any
    if isinstance(typ, KnownValue) or isinstance(v, KnownValue):
        if isinstance(typ, KnownValue) and isinstance(v, KnownValue):
            if typ.val is None or v.val is None:
                return typ.val is None and v.val is None
            return type(typ.val) is type(v.val) and typ.val == v.val
        return False
    return ref_accepts(rel, typ, v)


def ref_cond(node, rel, varmap, positions, env):
    """-> (truth value, variable map holding inside the true branch).  The only narrowing that matters
    for atomic arguments is the specification's 'normal narrowing rules' applied to an Any argument
    that matched is_of_type (possible with exclude_any=False or against Any): it then has the tested
    type; operands of `and` are evaluated left to right under that narrowing."""
    if isinstance(node, ast.BoolOp):
        if isinstance(node.op, ast.And):
            vm = varmap
            for v in node.values:
                ok, vm2 = ref_cond(v, rel, vm, positions, env)
                if not ok:
                    return False, varmap
                vm = vm2
            return True, vm
        for v in node.values:
            ok, vm2 = ref_cond(v, rel, varmap, positions, env)
            if ok:
                return True, vm2
        return False, varmap
    if isinstance(node, ast.UnaryOp):
        ok, _ = ref_cond(node.operand, rel, varmap, positions, env)
        return (not ok), varmap
    if isinstance(node, ast.Call):
        name = node.func.id
        if name == "is_of_type":
            excl = True
            for kw in node.keywords:
                excl = kw.value.value
            typ = KnownValue(None) if isinstance(node.args[1], ast.Constant) else env[node.args[1].id]
            arg = node.args[0].id
            ok = ref_is_of_type(rel, varmap[arg], typ, excl)
            if ok and _is_any(varmap[arg]) and not _is_any(typ):
                vm = dict(varmap)
                vm[arg] = typ
                return True, vm
            return ok, varmap
        pos = positions[node.args[0].id]
        provided_pos = isinstance(pos, int) or pos is ARGS
        provided_kw = isinstance(pos, str) or pos is KWARGS
        if name == "is_provided":
            return (provided_pos or provided_kw), varmap
        if name == "is_positional":
            return provided_pos, varmap
        if name == "is_keyword":
            return provided_kw, varmap
        raise AssertionError(name)
    if isinstance(node, ast.Compare):
        op = node.ops[0]
        if isinstance(node.left, ast.Attribute):
            ver = env["VER"].val
            return (sys.version_info >= ver), varmap
        right = node.comparators[0]
        lit = KnownValue(right.value) if isinstance(right, ast.Constant) else env[right.id]
        res = ref_is_of_type(rel, varmap[node.left.id], lit, True)
        if isinstance(op, (ast.NotEq, ast.IsNot)):
            return (not res), varmap
        return res, varmap
    raise AssertionError(ast.dump(node))


def ref_block(stmts, rel, varmap, positions, env, errors) -> Optional[Value]:
    for st in stmts:
        if isinstance(st, ast.Return):
            return env[st.value.id]
        if isinstance(st, ast.Expr):
            errors.append(st.value.args[0].value)
            continue
        if isinstance(st, ast.Pass):
            continue
        if isinstance(st, ast.If):
            taken, vm_true = ref_cond(st.test, rel, varmap, positions, env)
            branch = st.body if taken else st.orelse
            r = ref_block(branch, rel, vm_true if taken else varmap, positions, env, errors)
            if r is not None:
                return r
            continue
        raise AssertionError(ast.dump(st))
    return None


def _members(v: Value) -> List[Value]:
    return list(flatten_values(v))


def _arg(spec, atoms, lit):
    k = spec[0]
    if k == "atom":
        return atoms[spec[1]]
    if k == "union":
        return MultiValuedValue([atoms[spec[1]], atoms[spec[2]]])
    if k == "any":
        return AnyValue(AnySource.explicit)
    if k == "anyunion":  # Any | atom: a union with an Any member
        return MultiValuedValue([AnyValue(AnySource.explicit), atoms[spec[1]]])
    if k == "lit":
        return KnownValue(lit)
    if k == "none":
        return KnownValue(None)
    if k == "litunion":
        return MultiValuedValue([KnownValue(lit), KnownValue(None)])
    if k == "lit2":
        return MultiValuedValue([KnownValue(lit), KnownValue(lit + 1)])
    raise AssertionError(spec)


def _position(p):
    return {"pos": 0, "kw": "kwname", "default": DEFAULT, "args": ARGS, "kwargs": KWARGS, "unknown": UNKNOWN}[p]


def h20(b0: bool, b1: bool, b2: bool, b3: bool, b4: bool, b5: bool, lit: int, cmp_lit: int, minor: int) -> bool:
    """
    post: _
    """
    if excluded(b0=b0, b1=b1, b2=b2, b3=b3, b4=b4, b5=b5, lit=lit, cmp_lit=cmp_lit, minor=minor):
        return skip()
    data = G.case
    rel = Rel(3, (b0, b1, b2, b3, b4, b5))
    atoms = [Atom(i, rel) for i in range(3)]
    env: Dict[str, Value] = {"A0": atoms[0], "A1": atoms[1], "A2": atoms[2], "ANY": AnyValue(AnySource.explicit),
                             "LIT": KnownValue(cmp_lit), "VER": KnownValue((3, minor)), "sys": KnownValue(sys), **RS}
    x = _arg(data["x"], atoms, lit)
    y = _arg(data["y"], atoms, lit)
    positions = {"x": _position(data["px"]), "y": _position(data["py"])}
    ev = Ev(_NODE, RET_ANN, env)
    ctx = EvalContext({"x": x, "y": y}, dict(positions), get_checker(), {})
    got, errs = ev.evaluate(ctx)
    got_set = set(flatten_values(got))
    got_errs = set(e.message for e in errs)
    want_set = set()
    want_errs = set()
    for mx in _members(x):
        for my in _members(y):
            e: List[str] = []
            r = ref_block(_NODE.body, rel, {"x": mx, "y": my}, positions, env, e)
            want_set.add(r if r is not None else RET_ANN)
            want_errs.update(e)
    if (got_set != want_set or got_errs != want_errs) and want_set <= got_set and want_errs <= got_errs:
        # known finding C20-K1 (region: bodies where a partially matching `if ...: return` without else is followed by
        # further statements, and only when pyanalyze reports MORE than the member-wise evaluation, never less)
        if excluded(feat_seq_noelse=(data.get("feat") == "seq_noelse"), over_approx=True, b0=b0, b1=b1, b2=b2, b3=b3, b4=b4, b5=b5):
            return skip()
    return fin(got_set == want_set and got_errs == want_errs)


# ----------------------------------------------------------------------------------------
# body generation
# ----------------------------------------------------------------------------------------

ATOM_CONDS = ["is_of_type(x, A0)", "is_of_type(x, A1)", "is_of_type(y, A0)", "is_of_type(x, A0, exclude_any=False)", "is_of_type(y, ANY)"]
POS_CONDS = ["is_provided(y)", "is_positional(x)", "is_keyword(y)"]
LIT_CONDS = ["x == LIT", "x != LIT", "x is None", "y is not None", "sys.version_info >= VER"]


def _conds(base: List[str], depth2: bool) -> List[str]:
    out = list(base)
    if depth2:
        for a, b in itertools.permutations(base[:4], 2):
            out.append(f"{a} and {b}")
            out.append(f"{a} or {b}")
        for a in base[:3]:
            out.append(f"not {a}")
            out.append(f"not ({a} and {base[-1]})")
    return out


def _bodies(conds: List[str]) -> List[str]:
    out = []
    for c in conds:
        out.append(f"def f(x, y):\n    if {c}:\n        return R0\n    else:\n        return R1\n")
        out.append(f"def f(x, y):\n    if {c}:\n        show_error('e0')\n        return R0\n    return R1\n")
        out.append(f"def f(x, y):\n    if {c}:\n        show_error('e0')\n")
    for c1, c2 in itertools.permutations(conds[: min(len(conds), 9)], 2):
        out.append(f"def f(x, y):\n    if {c1}:\n        return R0\n    elif {c2}:\n        return R1\n    else:\n        return R2\n")
        out.append(f"def f(x, y):\n    if {c1}:\n        if {c2}:\n            return R0\n        else:\n            show_error('e1')\n            return R1\n    else:\n        return R2\n")
        out.append(f"def f(x, y):\n    if {c1}:\n        show_error('e0')\n    if {c2}:\n        return R1\n    return R2\n")
        # a nested if that returns in one arm and falls through in the other, inside an if whose else returns: the
        # fall-through must reach the statements after the outer if
        out.append(f"def f(x, y):\n    if {c1}:\n        if {c2}:\n            return R0\n    else:\n        return R1\n    show_error('e1')\n    return R2\n")
        # a partially matching early return followed by a complete if/else (sequence of statements)
        out.append(f"def f(x, y):\n    if {c1}:\n        return R0\n    if {c2}:\n        return R1\n    else:\n        show_error('e1')\n        return R2\n")
    return out


def _pick(label: str, seed: int, mod: int) -> bool:
    import zlib

    return (zlib.crc32(label.encode()) + seed) % mod == 0


def cases(tier: str, seed: int) -> List[Case]:
    out: List[Case] = []
    quick = tier == "quick"
    atom_args = [["atom", 0], ["atom", 2], ["union", 0, 1], ["union", 1, 2], ["any"], ["anyunion", 2]]
    lit_args = [["lit"], ["none"], ["litunion"], ["lit2"]]
    fam = [
        ("at", _bodies(_conds(ATOM_CONDS, True)), atom_args, atom_args[:4], ["pos"], ["pos", "kw"]),
        ("ps", _bodies(_conds(POS_CONDS + ATOM_CONDS[:2], True)), atom_args[:3], atom_args[:2], ["pos", "kw", "args", "unknown"], ["pos", "kw", "default", "kwargs", "unknown"]),
        ("lt", _bodies(_conds(LIT_CONDS, True)), lit_args, lit_args[:3], ["pos"], ["pos"]),
    ]
    n = 0
    for name, bodies, xs, ys, pxs, pys in fam:
        for bi, body in enumerate(bodies):
            for x in xs:
                for y in ys:
                    for px in pxs:
                        for py in pys:
                            lab = f"{name}:b{bi}:{'-'.join(map(str, x))}:{'-'.join(map(str, y))}:{px}:{py}"
                            if not _pick(lab, seed, 80 if quick else 12):
                                continue
                            n += 1
                            d = {"body": body, "x": x, "y": y, "px": px, "py": py}
                            if "return R0\n    if " in body:
                                d["feat"] = "seq_noelse"  # see known finding C20-K1
                            out.append(Case("h20", lab, d, timeout=90 if quick else 300, twin=(n % 5 == 0), vacuous_ok=True))
    # pinned: the specification's own shape - an `and` of conditions on two union arguments followed by
    # a branch that inspects one of them again
    pinned_body = ("def f(x, y):\n    if is_of_type(x, A0) and is_of_type(y, A1):\n        return R0\n"
                   "    elif is_of_type(x, A0):\n        return R1\n    else:\n        return R2\n")
    pinned_or = ("def f(x, y):\n    if is_of_type(x, A0) or is_of_type(y, A1):\n        if is_of_type(x, A0):\n            return R0\n"
                 "        else:\n            return R1\n    else:\n        return R2\n")
    pinned_seq = ("def f(x, y):\n    if is_of_type(x, A0):\n        return R0\n    if is_of_type(y, A1):\n        return R1\n"
                  "    else:\n        return R2\n")
    pinned_lit = ("def f(x, y):\n    if x == LIT and y is None:\n        return R0\n    elif x == LIT:\n        return R1\n    else:\n        return R2\n")
    pinned_perm = ("def f(x, y):\n    if is_of_type(x, A0, exclude_any=False):\n        show_error('e0')\n        return R0\n"
                   "    else:\n        return R1\n")
    pinned_nest = ("def f(x, y):\n    if is_of_type(x, A0):\n        if is_of_type(y, A1):\n            return R0\n    else:\n        return R1\n"
                   "    show_error('e1')\n    return R2\n")
    pinned_seqx = ("def f(x, y):\n    if is_of_type(x, A0):\n        return R0\n    if is_of_type(x, A1):\n        return R1\n"
                   "    show_error('e1')\n    return R2\n")
    out.append(Case("h20", "pin:seqx", {"body": pinned_seqx, "x": ["union", 0, 1], "y": ["atom", 2], "px": "pos", "py": "pos", "feat": "seq_noelse"},
                    timeout=120 if quick else 300, twin=True, vacuous_ok=True))
    out.append(Case("h20", "pin:seqx2", {"body": pinned_seqx, "x": ["union", 1, 2], "y": ["atom", 0], "px": "pos", "py": "pos", "feat": "seq_noelse"},
                    timeout=120 if quick else 300, twin=True, vacuous_ok=True))
    for tag, body, x, y in (("nest", pinned_nest, ["union", 0, 1], ["union", 1, 2]), ("nest2", pinned_nest, ["union", 0, 2], ["union", 0, 1]),
                            ("seq", pinned_seq, ["union", 0, 1], ["union", 1, 2]), ("seq2", pinned_seq, ["union", 0, 2], ["union", 0, 1]),
                            ("perm", pinned_perm, ["anyunion", 2], ["atom", 0]), ("perm1", pinned_perm, ["anyunion", 1], ["atom", 0]),
                            ("and", pinned_body, ["union", 0, 1], ["union", 1, 2]), ("or", pinned_or, ["union", 0, 2], ["union", 1, 2]),
                            ("and2", pinned_body, ["union", 0, 2], ["union", 0, 1]), ("lit", pinned_lit, ["lit2"], ["litunion"])):
        d = {"body": body, "x": x, "y": y, "px": "pos", "py": "pos"}
        if "return R0\n    if " in body:
            d["feat"] = "seq_noelse"
        out.append(Case("h20", f"pin:{tag}", d, timeout=120 if quick else 300, twin=True, vacuous_ok=True))
    return out
