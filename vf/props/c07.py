"""C07 - callable compatibility is behaviourally sound.

H07a: for an ordered pair (expected, actual) of signatures the real `Signature.can_assign` decides
      acceptance; the *call shape* (number of positionals, keyword presence for the names a, b, c)
      is symbolic; oracle = CPython itself: defs generated from the two specs are really called with
      each path's concrete shape.  Obligation: accepted and expected binds c  =>  actual binds c.
H07b: typed parameters and returns are stub atoms under a symbolic preorder; obligation: accepted
      =>  every parameter pair the real binder matches is contravariant and the return covariant
      (the matching is taken from real calls of defs that return their locals()).
"""

from __future__ import annotations

import itertools
from typing import Dict, List, Optional

from pyanalyze.signature import ParameterKind, Signature, SigParameter
from pyanalyze.value import AnySource, AnyValue, CallableValue, CanAssignError, GenericValue, KnownValue, TypedValue

from vf.common import Atom, Rel, get_checker
from vf.engine import Case
from vf.g import G, excluded, fin, skip

ID = "C07"
FUNCTIONS_ENCODED = [
    "pyanalyze.signature.Signature.can_assign (non-overloaded branch)",
    "pyanalyze.signature.can_assign_var_positional / can_assign_var_keyword",
    "pyanalyze.value.CallableValue.can_assign",
]
BOUNDS = {
    "quick": {"H07a": "ordered pairs of signatures with <= 2 parameters each over all kinds, defaults and names from {a, b, c} (rotating sample), call shapes 0..3 positionals x keyword presence for a, b, c",
              "H07b": "pairs with <= 2 typed parameters (+ typed *args / **kwargs) over 3 atoms under every preorder"},
    "thorough": {"H07a": "all pairs <= 2 x <= 2 and a sample with 3 parameters", "H07b": "same, more shapes"},
}
OUTSIDE = ["entry points that obtain the signature from a function literal (KnownValue.can_assign -> ctx.get_signature), protocols and overrides (_can_assign_to_base_callable): visitor",
           "ParamSpec / ELLIPSIS parameters, asynq callables, overloaded actual signatures"]
STUBS = ["stub atoms with a symbolic preorder (H07b)"]
ASSUMPTIONS = ["the oracle is CPython itself: generated defs are called with each concrete shape"]

K = ParameterKind
ANY = AnyValue(AnySource.explicit)
NAMES = ["a", "b", "c"]

_EXP = _ACT = None
_FE = _FA = None


def _def_source(spec, body="return 1") -> str:
    parts = []
    prev = None
    for nm, k, d in spec:
        if prev == 0 and k != 0:
            parts.append("/")
        if k == 3 and prev not in (2, 3):
            parts.append("*")
        parts.append({2: "*" + nm, 4: "**" + nm}.get(k, nm + ("=None" if d else "")))
        prev = k
    if prev == 0:
        parts.append("/")
    return f"def f({', '.join(parts)}): {body}"


def _mk(spec, anns=None, ret=None):
    params = []
    for i, (n, k, d) in enumerate(spec):
        ann = anns[i] if anns is not None else ANY
        if anns is not None and k == 2:  # *args: T is stored as tuple[T, ...], **kwargs: T as dict[str, T]
            ann = GenericValue(tuple, [ann])
        elif anns is not None and k == 4:
            ann = GenericValue(dict, [TypedValue(str), ann])
        params.append(SigParameter(n, K(k), default=KnownValue(None) if d else None, annotation=ann))
    return Signature.make(params, ret if ret is not None else ANY)


def _fn(spec, body="return 1"):
    ns: Dict = {}
    exec(_def_source(spec, body), ns)
    return ns["f"]


def prepare(template, data):
    global _EXP, _ACT, _FE, _FA
    get_checker()
    if template == "h07_shape":
        _EXP, _ACT = _mk(data["exp"]), _mk(data["act"])
        _FE, _FA = _fn(data["exp"]), _fn(data["act"])
    else:
        _FE, _FA = _fn(data["exp"], "return dict(locals())"), _fn(data["act"], "return dict(locals())")


def _binds(f, n, kws) -> bool:
    try:
        f(*range(n), **{k: 100 + i for i, k in enumerate(kws)})
        return True
    except TypeError:
        return False


def _sel(x, n):
    for i in range(1, n):
        if x == i:
            return i
    return 0


def h07_shape(npos: int, ka: bool, kb: bool, kc: bool) -> bool:
    """
    post: _
    """
    if excluded(npos=npos, ka=ka, kb=kb, kc=kc):
        return skip()
    n = _sel(npos, 4)
    kws = [nm for nm, f in zip(NAMES, (ka, kb, kc)) if f]
    accepted = not isinstance(_EXP.can_assign(_ACT, get_checker()), CanAssignError)
    via_value = not isinstance(CallableValue(_EXP).can_assign(CallableValue(_ACT), get_checker()), CanAssignError)
    if accepted != via_value:
        return fin(False)
    if not accepted:
        return fin(True, nontrivial=False)
    if not _binds(_FE, n, kws):
        return fin(True, nontrivial=False)
    # known finding C07-K1 is recognised by CPython's own error: the actual function receives the same
    # parameter positionally and by keyword
    feat_double_fill = False
    try:
        _FA(*range(n), **{k: 100 + i for i, k in enumerate(kws)})
        ok = True
    except TypeError as e:
        ok = False
        feat_double_fill = "multiple values for argument" in str(e)
    if excluded(feat_double_fill=feat_double_fill, npos=npos, ka=ka, kb=kb, kc=kc):
        return skip()
    return fin(ok)


def h07_typed(b0: bool, b1: bool, b2: bool, b3: bool, b4: bool, b5: bool, npos: int, ka: bool, kb: bool) -> bool:
    """
    post: _
    """
    if excluded(b0=b0, b1=b1, b2=b2, b3=b3, b4=b4, b5=b5, npos=npos, ka=ka, kb=kb):
        return skip()
    data = G.case
    rel = Rel(3, (b0, b1, b2, b3, b4, b5))
    atoms = [Atom(i, rel) for i in range(3)]
    e_anns = [atoms[i] for i in data["exp_anns"]]
    a_anns = [atoms[i] for i in data["act_anns"]]
    exp = _mk(data["exp"], e_anns, atoms[data["exp_ret"]])
    act = _mk(data["act"], a_anns, atoms[data["act_ret"]])
    accepted = not isinstance(exp.can_assign(act, get_checker()), CanAssignError)
    if not accepted:
        return fin(True, nontrivial=False)
    # return type is covariant
    if not rel.accepts(data["exp_ret"], data["act_ret"]):
        return fin(False)
    # every argument the expected signature takes for this shape lands, in the actual function, in a
    # parameter whose type accepts the expected parameter's type (contravariance)
    n = _sel(npos, 3)
    kws = [nm for nm, f in zip(NAMES[:2], (ka, kb)) if f]
    try:
        le = _FE(*range(n), **{k: 100 + i for i, k in enumerate(kws)})
    except TypeError:
        return fin(True, nontrivial=False)
    try:
        la = _FA(*range(n), **{k: 100 + i for i, k in enumerate(kws)})
    except TypeError:
        return fin(False)

    def owner(locs, spec, anns, marker):
        """index of the annotation of the parameter that received the argument `marker`"""
        for i, (nm, k, d) in enumerate(spec):
            v = locs.get(nm)
            if k == 2:
                if isinstance(v, tuple) and marker in v:
                    return i
            elif k == 4:
                if isinstance(v, dict) and marker in v.values():
                    return i
            elif v is not None and v == marker and type(v) is int:
                return i
        return None

    markers = list(range(n)) + [100 + i for i in range(len(kws))]
    for mk_ in markers:
        ie = owner(le, data["exp"], e_anns, mk_)
        ia = owner(la, data["act"], a_anns, mk_)
        if ie is None or ia is None:
            return fin(False)
        if not rel.accepts(data["act_anns"][ia], data["exp_anns"][ie]):
            return fin(False)
    return fin(True)


# --------------------------------------------------------------------------------------


def _specs(maxparams: int, names=("a", "b", "c")):
    out = []
    for n in range(0, maxparams + 1):
        for kinds in itertools.product([0, 1, 2, 3, 4], repeat=n):
            if list(kinds) != sorted(kinds) or kinds.count(2) > 1 or kinds.count(4) > 1:
                continue
            named = [k for k in kinds if k in (0, 1, 3)]
            for defaults in itertools.product([0, 1], repeat=n):
                ok = True
                seen_default = False
                for k, d in zip(kinds, defaults):
                    if k in (2, 4) and d:
                        ok = False
                    if k in (0, 1):
                        if d:
                            seen_default = True
                        elif seen_default:
                            ok = False
                if not ok:
                    continue
                for perm in itertools.permutations(names, len(named)):
                    it = iter(perm)
                    spec = []
                    for k, d in zip(kinds, defaults):
                        if k == 2:
                            spec.append(["args", k, d])
                        elif k == 4:
                            spec.append(["kwargs", k, d])
                        else:
                            spec.append([next(it), k, d])
                    out.append(spec)
    return out


def _slabel(spec):
    sym = {0: "/", 1: "", 2: "*", 3: "!", 4: "**"}
    return ",".join(f"{sym[k]}{n}{'=' if d else ''}" for n, k, d in spec) or "()"


def _pick(label: str, seed: int, mod: int) -> bool:
    """seed-rotated sampling by a hash of the case label (not by enumeration index, which aliases
    with the period of the inner loops)"""
    import zlib

    return (zlib.crc32(label.encode()) + seed) % mod == 0


def cases(tier: str, seed: int) -> List[Case]:
    out: List[Case] = []
    quick = tier == "quick"
    s2 = _specs(2, ("a", "b"))
    s2c = _specs(2, ("a", "b", "c"))
    idx = 0
    for e in s2:
        for a in s2c:
            idx += 1
            lab = f"sh:{_slabel(e)}<-{_slabel(a)}"
            # every pair of signatures with at most one parameter each is in every tier (all kind x kind x default
            # x same/different name interactions); larger pairs are sampled
            small = len(e) <= 1 and len(a) <= 1
            if not small and not _pick(lab, seed, 24 if quick else 2):
                continue
            out.append(Case("h07_shape", lab, {"exp": e, "act": a}, timeout=60 if quick else 180, twin=False))
    # actual signatures that absorb with both *args and **kwargs next to one named parameter
    star = []
    for nm in ("a", "b"):
        for d in (0, 1):
            star.append([[nm, 0, d], ["args", 2, 0], ["kwargs", 4, 0]])
            star.append([[nm, 1, d], ["args", 2, 0], ["kwargs", 4, 0]])
            star.append([["args", 2, 0], [nm, 3, d], ["kwargs", 4, 0]])
    for e in s2:
        for a in star:
            idx += 1
            lab = f"sh:{_slabel(e)}<-{_slabel(a)}"
            if quick and not _pick(lab, seed, 2):
                continue
            out.append(Case("h07_shape", lab, {"exp": e, "act": a}, timeout=60 if quick else 180, twin=False))
    if not quick:
        s3 = _specs(3, ("a", "b", "c"))
        for e in s2[::3]:
            for a in s3:
                if len(a) < 3:
                    continue
                idx += 1
                if (idx + seed) % 11 != 0:
                    continue
                out.append(Case("h07_shape", f"sh:{_slabel(e)}<-{_slabel(a)}", {"exp": e, "act": a}, timeout=180, twin=False))
    # typed pairs: structurally compatible shapes, annotations range over the 3 atoms
    shapes = [
        ([["a", 1, 0]], [["a", 1, 0]]),
        ([["a", 0, 0]], [["b", 0, 0]]),
        ([["a", 0, 0]], [["b", 1, 0]]),
        ([["a", 3, 0]], [["a", 3, 0]]),
        ([["a", 3, 0]], [["a", 1, 0]]),
        ([["a", 1, 0], ["b", 1, 0]], [["a", 1, 0], ["b", 1, 0]]),
        ([["a", 0, 0], ["b", 0, 0]], [["args", 2, 0]]),
        ([["a", 0, 0]], [["b", 0, 0], ["args", 2, 0]]),
        ([["a", 3, 0], ["b", 3, 0]], [["kwargs", 4, 0]]),
        ([["a", 3, 0]], [["a", 3, 0], ["kwargs", 4, 0]]),
        ([["a", 1, 0]], [["args", 2, 0], ["kwargs", 4, 0]]),
        ([["args", 2, 0]], [["args", 2, 0]]),
        ([["kwargs", 4, 0]], [["kwargs", 4, 0]]),
        ([["args", 2, 0]], [["a", 0, 1], ["args", 2, 0]]),
        ([["kwargs", 4, 0]], [["a", 3, 1], ["kwargs", 4, 0]]),
        # the expected parameter is absorbed by *args / **kwargs while the actual signature also has a parameter of
        # that name: a keyword call binds to that parameter, whose type must accept the expected one
        ([["a", 1, 0]], [["args", 2, 0], ["a", 3, 1], ["kwargs", 4, 0]]),
        ([["a", 1, 0]], [["args", 2, 0], ["a", 3, 1]]),
        ([["a", 3, 0]], [["a", 3, 1], ["kwargs", 4, 0]]),
    ]
    for si, (e, a) in enumerate(shapes):
        for ea in itertools.product(range(3), repeat=len(e)):
            for aa in itertools.product(range(3), repeat=len(a)):
                for er, ar in ((0, 0), (0, 1), (1, 0), (2, 1)):
                    idx += 1
                    if (idx + seed) % (11 if quick else 2) != 0:
                        continue
                    out.append(Case("h07_typed", f"ty:{_slabel(e)}:{''.join(map(str, ea))}>{er}<-{_slabel(a)}:{''.join(map(str, aa))}>{ar}",
                                    {"exp": e, "act": a, "exp_anns": list(ea), "act_anns": list(aa), "exp_ret": er, "act_ret": ar},
                                    timeout=60 if quick else 180, twin=False))
    seen = set()
    res = []
    for c in out:
        if c.label not in seen:
            seen.add(c.label)
            # reachability twin on a tenth of the cases; a rejected pair has nothing to check (vacuous_ok)
            c.twin = _pick(c.label, 0, 10)
            c.vacuous_ok = True
            res.append(c)
    return res
