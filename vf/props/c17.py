"""C17 - format-string diagnostics agree with CPython's formatter.

H17a (E2, direct z3): the %-template grammar.  `format_strings._FORMAT_STRING_REGEX` is read from
      the live module, parsed with re._parser and translated to a z3 regular expression; the
      queries compare the language of templates pyanalyze accepts with a regular model of
      CPython's parser (validated against `%` itself, E3).
H17b (E1): argument checking of parsed templates (count, `*`, `%c` ranges, mapping keys) with
      symbolic payloads, against an E3-validated model of CPython's argument rules.
H17c (E1): `parse_format_string` on a symbolic template against a pure-Python port of CPython's
      MarkupIterator / FieldNameIterator, E3-validated against string.Formatter (which uses the
      C parser).
"""

from __future__ import annotations

import itertools
import json
import os
import string as _stringmod
import time
from re import _parser as sp
from typing import Any, Dict, List, Optional, Tuple

import pyanalyze.format_strings as fs
from pyanalyze.format_strings import PercentFormatString, parse_format_string
from pyanalyze.value import KnownValue

from vf.common import get_checker
from vf.engine import VERIF, Case, load_known
from vf.g import G, excluded, fin, skip, untraced

ID = "C17"
FUNCTIONS_ENCODED = [
    "pyanalyze.format_strings._FORMAT_STRING_REGEX (translated to a z3 regular expression from re._parser's parse of the live pattern)",
    "pyanalyze.format_strings.PercentFormatString.from_pattern / from_bytes_pattern / lint (replay of E2 witnesses)",
    "pyanalyze.format_strings.PercentFormatString.accept / accept_tuple_args_no_mvv / accept_mapping_args_no_mvv / get_serial_specifiers",
    "pyanalyze.format_strings.ConversionSpecifier.accept_no_mvv / StarConversionSpecifier.accept",
    "pyanalyze.implementation._str_format_impl (H17d: positional / keyword argument lookup of str.format fields, against really formatting)",
    "pyanalyze.format_strings.parse_format_string / _parse_children / _parse_replacement_field (errors and, for a single field, index-vs-keyword decision)",
]
BOUNDS = {
    "quick": {"H17a": "all templates of length <= 8 without newline, str and bytes", "H17b": "<= 2 specifiers from 8 kinds, <= 3 arguments from 4 kinds, payloads symbolic (int unbounded, str len <= 2)",
              "H17c": "all str.format templates of length <= 3 over the 10-character alphabet {}[].!:a0r"},
    "thorough": {"H17a": "length <= 12", "H17b": "<= 3 specifiers, <= 4 arguments", "H17c": "length <= 4"},
}
OUTSIDE = [
    "templates containing a newline (Python's `$` also matches before a final newline; from_pattern patches that by hand)",
    "attribute / index paths inside str.format fields beyond `{0.real}`; the inferred result type (a constant)",
    "the documented stricter lint rules: no specifiers at all, mixing mapping and positional specifiers",
]
STUBS = ["coarse-hash stub for KnownValue (H17b)", "regular model of CPython's %-template parser (validated by E3 on all strings <= 5 over a 10-character alphabet)",
         "port of CPython's MarkupIterator/FieldNameIterator (validated by E3 against string.Formatter on all strings <= 5)"]
ASSUMPTIONS = ["lazy finditer tokenisation equals membership in (non-% | SPEC)*: discharged as side-condition queries (SPEC is prefix-free)"]

# =======================================================================================
# CPython model for % templates (pure Python) + E3
# =======================================================================================

STR_CONV = "diouxXeEfFgGcrsa%"
BYTES_CONV = "diouxXeEfFgGcrsab%"


class Bad(Exception):
    pass


def c_parse(t: str, is_bytes: bool = False):
    """Port of unicode_format_arg_parse: list of (key, nstars, conv) or raises Bad."""
    conv_ok = BYTES_CONV if is_bytes else STR_CONV
    out = []
    i, n = 0, len(t)
    while i < n:
        if t[i] != "%":
            i += 1
            continue
        i += 1
        if i < n and t[i] == "%":
            i += 1
            continue
        key = None
        stars = 0
        if i < n and t[i] == "(":
            depth = 1
            i += 1
            start = i
            while depth > 0:
                if i >= n:
                    raise Bad("incomplete format key")
                if t[i] == ")":
                    depth -= 1
                elif t[i] == "(":
                    depth += 1
                i += 1
            key = t[start : i - 1]
        while i < n and t[i] in "-+ #0":
            i += 1
        if i < n and t[i] == "*":
            stars += 1
            i += 1
        else:
            while i < n and t[i].isdigit() and t[i] in "0123456789":
                i += 1
        if i < n and t[i] == ".":
            i += 1
            if i < n and t[i] == "*":
                stars += 1
                i += 1
            else:
                while i < n and t[i] in "0123456789":
                    i += 1
        if i < n and t[i] in "hlL":
            i += 1
        if i >= n:
            raise Bad("incomplete format")
        c = t[i]
        i += 1
        if c not in conv_ok or c == "%":
            # `%` is a conversion only as the plain escape `%%` (handled above): CPython 3.12
            # raises "unsupported format character '%'" for `%5%`, `%.%`, `%(k)%` (found by E3)
            raise Bad("unsupported format character")
        out.append((key, stars, c))
    return out


class _V(int):
    """an argument every conversion accepts: an int that also has __bytes__"""

    def __bytes__(self):
        return b"x"


class _U(dict):
    def __missing__(self, k):
        return _V(0)


def real_percent_ok(t, is_bytes=False) -> bool:
    """Does CPython format the template for *some* argument?  (model-guided probe: arguments are
    built from the model's spec list when it has one; otherwise a fixed probe set is tried)"""
    tt = t.encode("latin-1") if is_bytes else t
    try:
        specs = c_parse(t, is_bytes)
    except Bad:
        specs = None
    probes = []
    if specs is not None:
        if any(k is not None for k, _, _ in specs):
            probes.append(_U())
        args = []
        for k, stars, c in specs:
            args += [0] * stars
            args.append(b"x" if (is_bytes and c in "sb") else 0)
        probes.append(tuple(args))
    probes += [(), (0,), (0, 0), (0, 0, 0), (0, 0, 0, 0), _U()]
    for a in probes:
        try:
            tt % a
            return True
        except Exception:
            pass
    return False


def e3_percent(maxlen: int) -> Dict[str, Any]:
    alpha = "%().*5dshb"
    n = 0
    bad = []
    for L in range(0, maxlen + 1):
        for tup in itertools.product(alpha, repeat=L):
            t = "".join(tup)
            for is_bytes in (False, True):
                try:
                    c_parse(t, is_bytes)
                    m = True
                except Bad:
                    m = False
                # model-valid templates may still be unformattable (mapping + star); only the other
                # direction and exact validity on star-free/mixed-free templates are compared
                r = real_percent_ok(t, is_bytes)
                n += 1
                if m != r:
                    specs = c_parse(t, is_bytes) if m else None
                    mixed = specs is not None and any(k is not None for k, _, _ in specs) and (
                        any(s for _, s, _ in specs) or any(k is None for k, _, _ in specs))
                    if not mixed:
                        bad.append((t, is_bytes, m, r))
    return {"compared": n, "disagreements": bad[:10]}


# =======================================================================================
# E2
# =======================================================================================


def _build_e2():
    import z3

    from vf import z3re

    p = sp.parse(fs._FORMAT_STRING_REGEX, fs._FLAGS)
    items = list(p)
    if len(items) != 2 or items[1][0] is not sp.SUBPATTERN:
        raise NotImplementedError("unexpected top-level shape of _FORMAT_STRING_REGEX")
    pre = items[0]
    if pre[0] is not sp.SUBPATTERN:
        raise NotImplementedError("pre_match group missing")
    branch = list(items[1][1][3])[0]
    if branch[0] is not sp.BRANCH or len(branch[1][1]) != 2:
        raise NotImplementedError("expected (SPEC | $) alternation")
    at_end = list(branch[1][1][1])
    if len(at_end) != 1 or at_end[0][0] is not sp.AT:
        raise NotImplementedError("second alternative is not `$`")
    spec_py = z3re.tr(branch[1][1][0])
    return z3, z3re, spec_py


def _c_spec(z3, z3re, conv: str, depth: int, strict_prec: bool, plain_percent_only: bool):
    D = z3.Range("0", "9")
    inner = z3.Star(z3re.not_chars("()"))
    for _ in range(depth):
        inner = z3.Star(z3.Union(z3re.not_chars("()"), z3.Concat(z3.Re("("), inner, z3.Re(")"))))
    key = z3.Concat(z3.Re("("), inner, z3.Re(")"))
    width = z3.Option(z3.Union(z3.Re("*"), z3.Plus(D)))
    if strict_prec:
        prec = z3.Option(z3.Concat(z3.Re("."), z3.Union(z3.Re("*"), z3.Plus(D))))
    else:
        prec = z3.Option(z3.Concat(z3.Re("."), z3.Option(z3.Union(z3.Re("*"), z3.Plus(D)))))
    convs = conv.replace("%", "") if plain_percent_only else conv
    body = z3.Concat(z3.Re("%"), z3.Option(key), z3.Star(z3re.charset("-+ #0")), width, prec,
                     z3.Option(z3re.charset("hlL")), z3re.charset(convs))
    if plain_percent_only:
        body = z3.Union(body, z3.Re("%%"))
    return body


def _replay_percent(t: str, is_bytes: bool) -> Dict[str, Any]:
    """pyanalyze's verdict on the template itself vs CPython's."""
    if is_bytes:
        f = PercentFormatString.from_bytes_pattern(t.encode("latin-1"))
    else:
        f = PercentFormatString.from_pattern(t)
    lint = list(f.lint())
    return {"template": t, "bytes": is_bytes, "pyanalyze_lint": lint, "cpython_formats_for_some_args": real_percent_ok(t, is_bytes)}


E2_KNOWN = {
    # difference class -> (description, scope restriction applied so that other differences still show)
    "C17-K1": "precision without digits (`%.f`, `%5.d`) is valid for CPython and reported as an invalid conversion specifier (regex requires `\\.(\\*|\\d+)`)",
    "C17-K2": "empty or parenthesis-containing mapping keys (`%()s`, `%(a(b))s`) are valid for CPython (balanced parentheses) and reported as invalid",
    "C17-K3": "an unbalanced `(` inside a mapping key (`%(a(b)s`) makes CPython raise 'incomplete format key' but is accepted silently (regex key is `\\([^\\)]+\\)`)",
}


def run_e2(tier: str) -> Dict[str, Any]:
    z3, z3re, spec_py = _build_e2()
    N = 8 if tier == "quick" else 12
    q = z3re.Q(timeout_ms=120000 if tier == "quick" else 600000, cross=(tier == "thorough"))
    s = z3.String("s")
    a = z3.String("a")
    b = z3.String("b")
    nonpct = z3re.not_chars("%")
    base = [z3.Length(s) <= N, z3.Not(z3.Contains(s, z3.StringVal("\n")))]
    if z3re.USED_CATEGORIES:
        # \w / \s / \D ... are translated for ASCII subjects only
        base.append(z3re.ascii_only(s))
    out: Dict[str, Any] = {"violations": [], "known_lines": [], "harness_errors": [], "samples": []}
    known_ids = {e["id"] for e in load_known(ID) if e.get("engine") == "e2"}

    # side conditions -----------------------------------------------------------------
    r, m = q.check("side:spec_py_prefix_free",
                   [z3.Length(a) + z3.Length(b) <= N + 2, z3.Length(b) >= 1, z3.InRe(a, spec_py),
                    z3.InRe(z3.Concat(a, b), spec_py)], [a, b])
    if r != "unsat":
        out["harness_errors"].append(f"side condition prefix-free came back {r} {m}: tokenisation model does not apply")
    r, m = q.check("side:spec_py_starts_with_percent", [z3.Length(a) <= N, z3.InRe(a, spec_py),
                                                         z3.Not(z3.PrefixOf(z3.StringVal("%"), a))], [a])
    if r != "unsat":
        out["harness_errors"].append(f"side condition starts-with-% came back {r} {m}")
    # reachability witness: the languages are not empty / not everything
    r, m = q.check("vacuity:some_spec", [z3.Length(a) <= 6, z3.InRe(a, spec_py)], [a])
    if r != "sat":
        out["harness_errors"].append("vacuity: translated SPEC is empty")

    # scope: every `%(` opens a simple non-empty key without parentheses (K2/K3 live outside it)
    S_key = z3.Star(z3.Union(nonpct, z3.Concat(z3.Re("%("), z3.Plus(z3re.not_chars("()")), z3.Re(")")),
                             z3.Concat(z3.Re("%"), z3re.not_chars("("))))
    results = []
    for is_bytes, conv, name in ((False, STR_CONV, "str"), (True, BYTES_CONV, "bytes")):
        # what pyanalyze accepts without any lint error: SPEC_py, minus %b on str templates
        sp_eff = spec_py if is_bytes else z3.Intersect(spec_py, z3.Concat(z3.Star(z3re.ANY), z3re.not_chars("b")))
        # `%<modifiers>%` is flagged by the documented stricter rule: only plain %% counts as accepted
        sp_eff = z3.Intersect(sp_eff, z3.Union(z3.Re("%%"), z3.Concat(z3.Star(z3re.ANY), z3re.not_chars("%"))))
        L_py = z3.Star(z3.Union(nonpct, sp_eff))
        L_c = z3.Star(z3.Union(nonpct, _c_spec(z3, z3re, conv, 5, False, True)))
        L_c_adj = z3.Star(z3.Union(nonpct, _c_spec(z3, z3re, conv, 5, True, True)))

        def decide(qname, cons, kid=None, what=""):
            r, m = q.check(qname, base + cons, [s])
            rec = {"query": qname, "result": r}
            if r == "sat":
                t = z3re.unescape_z3(m["s"])
                rep = _replay_percent(t, is_bytes)
                rec["witness"] = rep
                py_ok = not rep["pyanalyze_lint"]
                c_ok = rep["cpython_formats_for_some_args"]
                if py_ok == c_ok:
                    out["harness_errors"].append(f"{qname}: witness {t!r} does not reproduce on the real code ({rep})")
                elif kid is not None and kid in known_ids:
                    line = f"KNOWN-FINDING: property={ID} {kid}: {E2_KNOWN[kid]} (witness {t!r})"
                    if line.split(" (witness")[0] not in [l.split(" (witness")[0] for l in out["known_lines"]]:
                        out["known_lines"].append(line)
                else:
                    path = _save_e2_replay(qname, rep)
                    out["violations"].append(path)
            elif r != "unsat":
                rec["note"] = "inconclusive"
            results.append(rec)
            return r

        # main obligations, inside the scope
        decide(f"{name}:accepted_by_pyanalyze_but_cpython_raises", [z3.InRe(s, S_key), z3.InRe(s, L_py), z3.Not(z3.InRe(s, L_c))])
        decide(f"{name}:valid_for_cpython_but_reported", [z3.InRe(s, S_key), z3.InRe(s, L_c_adj), z3.Not(z3.InRe(s, L_py))])
        # known difference classes: still there?  (sat + reproducing witness -> KNOWN-FINDING line)
        L_c_prec = z3.Star(z3.Union(nonpct, _c_spec(z3, z3re, conv, 5, False, True)))
        decide(f"{name}:K1_empty_precision", [z3.InRe(s, S_key), z3.InRe(s, L_c_prec), z3.Not(z3.InRe(s, L_py))], "C17-K1")
        decide(f"{name}:K2_paren_keys", [z3.Not(z3.InRe(s, S_key)), z3.InRe(s, L_c_adj), z3.Not(z3.InRe(s, L_py))], "C17-K2")
        decide(f"{name}:K3_unbalanced_key", [z3.Not(z3.InRe(s, S_key)), z3.InRe(s, L_py), z3.Not(z3.InRe(s, L_c))], "C17-K3")
    out["queries"] = q.queries
    out["time_s"] = round(q.time_s, 2)
    out["discharged"] = sum(1 for e in q.log if e["result"] == "unsat")
    out["inconclusive"] = [e["name"] for e in q.log if e["result"] not in ("sat", "unsat")]
    out["log"] = q.log
    out["samples"] = results[:6]
    out["bound"] = f"|template| <= {N}, no newline; key nesting depth <= 5" + ("; ASCII templates (the pattern uses \\w / \\s classes)" if z3re.USED_CATEGORIES else "")
    return out


def _save_e2_replay(qname: str, rep: Dict[str, Any]) -> str:
    import hashlib

    d = os.path.join(VERIF, "replays", ID)
    os.makedirs(d, exist_ok=True)
    payload = {"engine": "e2", "property": ID, "query": qname, **rep}
    h = hashlib.sha1(json.dumps(payload, sort_keys=True).encode()).hexdigest()[:12]
    path = os.path.join(d, f"e2_{h}.json")
    with open(path, "w") as f:
        json.dump(payload, f, indent=1)
    return path


def replay_e2(payload) -> int:
    rep = _replay_percent(payload["template"], payload["bytes"])
    print(json.dumps(rep, indent=1))
    if (not rep["pyanalyze_lint"]) != rep["cpython_formats_for_some_args"]:
        print(f"VIOLATION property={ID} replay=(see above)")
        return 1
    return 0


# =======================================================================================
# H17b - argument rules
# =======================================================================================


def prepare(template, data):
    """Outside tracing: warm the checker's protocol / type-object caches (the first
    `Numeric.is_assignable` walks typeshed and takes a minute under tracing) and install the
    coarse-hash stub (KnownValue payloads are hashed by unite_values)."""
    from vf.common import install_coarse_hash
    from pyanalyze.value import TypedValue

    install_coarse_hash()
    chk = get_checker()
    for v in (KnownValue(1), KnownValue("a"), KnownValue(None), KnownValue(1.5), KnownValue(b"x"), KnownValue((1, "a")), KnownValue({"a": 1})):
        fs.Numeric.is_assignable(v, chk)
        for t in (int, str, bytes, tuple, dict):
            TypedValue(t).is_assignable(v, chk)


SPEC_KINDS = {
    "d": "%d", "s": "%s", "c": "%c", "r": "%r", "pct": "%%", "stard": "%*d", "pstarf": "%.*f", "5d": "%5d",
    "dstar": "%*.*f",
    "x": "%x", "o": "%#o", "e": "%e", "g": "%-8.3g", "i": "%+i",
}
NEEDS = {"d": ["num"], "s": ["any"], "c": ["chr"], "r": ["any"], "pct": [], "stard": ["int", "num"],
         "pstarf": ["int", "num"], "5d": ["num"], "dstar": ["int", "int", "num"],
         "x": ["int"], "o": ["int"], "e": ["num"], "g": ["num"], "i": ["num"]}
ARG_KINDS = ["int", "str", "none", "float"]
# bytes templates: %s / %b take bytes-like objects only, %c an int in range(256) or a length-1 bytes
BYTES_SPEC_KINDS = {"d": b"%d", "s": b"%s", "c": b"%c", "b": b"%b", "a": b"%a", "stard": b"%*d"}
BYTES_NEEDS = {"d": ["num"], "s": ["bts"], "c": ["chr"], "b": ["bts"], "a": ["any"], "stard": ["int", "num"]}
BYTES_ARG_KINDS = ["int", "str", "bytes", "none"]


def _arg_ok(need: str, kind: str, ival, sval, is_bytes: bool) -> bool:
    """CPython's rule for one consumed argument (E3-validated)."""
    if need == "any":
        return True
    if need == "num":
        return kind in ("int", "float")
    if need == "int":
        return kind == "int"
    if need == "bts":
        return kind == "bytes"
    if need == "chr":
        if kind == "int":
            return 0 <= ival < (256 if is_bytes else 0x110000)
        if kind == "str":
            return (not is_bytes) and len(sval) == 1
        if kind == "bytes":
            return is_bytes and len(sval) == 1
        return False
    raise AssertionError(need)


def _mk_arg(kind, ival, sval, is_bytes):
    if kind == "int":
        return ival
    if kind == "bytes":
        # the length of the symbolic str decides the length of the bytes object
        if len(sval) == 0:
            return b""
        if len(sval) == 1:
            return b"a"
        return b"ab"
    if kind == "str":
        return sval
    if kind == "none":
        return None
    return 1.5


def h17_args(i0: int, i1: int, i2: int, i3: int, s0: str, s1: str, s2: str, s3: str) -> bool:
    """
    post: _
    """
    if excluded(i0=i0, i1=i1, i2=i2, i3=i3, s0=s0, s1=s1, s2=s2, s3=s3):
        return skip()
    data = G.case
    specs, kinds = data["specs"], data["args"]
    ivals, svals = (i0, i1, i2, i3), (s0, s1, s2, s3)
    for j, k in enumerate(kinds):
        if k == "str" and len(svals[j]) > 2:
            return skip()
    template = "x".join(SPEC_KINDS[sk] for sk in specs)
    f = PercentFormatString.from_pattern(template)
    args = tuple(_mk_arg(k, ivals[j], svals[j], False) for j, k in enumerate(kinds))
    if len(args) == 1 and data.get("bare"):
        val = KnownValue(args[0])
    else:
        val = KnownValue(args)
    errs = list(f.lint()) + list(f.accept(val, get_checker()))
    needs = []
    for sk in specs:
        needs += NEEDS[sk]
    if not any(sk != "pct" for sk in specs):
        # no conversion specifier at all: the documented stricter rule fires unless args == ()
        return fin((len(errs) > 0) == (len(args) > 0))
    if len(needs) != len(args):
        c_ok = False
    else:
        c_ok = True
        for j, need in enumerate(needs):
            if not _arg_ok(need, kinds[j], ivals[j], svals[j], False):
                c_ok = False
    return fin((len(errs) == 0) == c_ok)


def h17_bytes(i0: int, i1: int, s0: str, s1: str) -> bool:
    """
    post: _
    """
    if excluded(i0=i0, i1=i1, s0=s0, s1=s1):
        return skip()
    data = G.case
    specs, kinds = data["specs"], data["args"]
    ivals, svals = (i0, i1), (s0, s1)
    for j, k in enumerate(kinds):
        if k in ("str", "bytes") and len(svals[j]) > 2:
            return skip()
    template = b"x".join(BYTES_SPEC_KINDS[sk] for sk in specs)
    f = PercentFormatString.from_bytes_pattern(template)
    args = tuple(_mk_arg(k, ivals[j], svals[j], True) for j, k in enumerate(kinds))
    errs = list(f.lint()) + list(f.accept(KnownValue(args), get_checker()))
    needs = []
    for sk in specs:
        needs += BYTES_NEEDS[sk]
    if len(needs) != len(args):
        c_ok = False
    else:
        c_ok = True
        for j, need in enumerate(needs):
            if not _arg_ok(need, kinds[j], ivals[j], svals[j], True):
                c_ok = False
    return fin((len(errs) == 0) == c_ok)


def h17_map(i0: int, s0: str, present_a: bool, present_b: bool) -> bool:
    """
    post: _
    """
    if excluded(i0=i0, s0=s0, present_a=present_a, present_b=present_b):
        return skip()
    data = G.case
    if len(s0) > 2:
        return skip()
    # template with mapping keys a and b; dict literal with optional extra key
    conv_a, conv_b = data["convs"]
    template = f"%(a){conv_a} %(b){conv_b}"
    if data.get("pct"):
        # an escaped percent sign consumes no argument: nothing is "combined" with the keyed specifiers
        template = "100%% " + template + "%%"
    if data.get("mix"):
        template = "%s " + template
    f = PercentFormatString.from_pattern(template)
    d = {}
    if present_a:
        d["a"] = i0 if data["a_kind"] == "int" else s0
    if present_b:
        d["b"] = 0
    if data["extra"]:
        d["zz"] = 1
    if data.get("bytes"):
        # a bytes template looks its keys up as bytes: a dict literal with str keys never satisfies it
        f = PercentFormatString.from_bytes_pattern(template.encode("ascii"))
        if data["bytes"] == "b":
            d = {k.encode("ascii"): v for k, v in d.items()}
        errs = list(f.lint()) + list(f.accept(KnownValue(d), get_checker()))
        c_ok = present_a and present_b and data["bytes"] == "b"
        if c_ok:
            c_ok = _arg_ok("num", data["a_kind"], i0, s0, True)
        return fin((len(errs) == 0) == c_ok)
    errs = list(f.lint()) + list(f.accept(KnownValue(d), get_checker()))
    if data.get("mix"):
        # keyed and unkeyed specifiers in one template: CPython formats it, pyanalyze's documented stricter rule
        # reports it - as a diagnostic, not by raising
        return fin(len(errs) > 0)
    c_ok = present_a and present_b
    if c_ok:
        need = {"d": "num", "s": "any", "c": "chr"}[conv_a]
        c_ok = _arg_ok(need, data["a_kind"], i0, s0, False)
    return fin((len(errs) == 0) == c_ok)


def e3_args() -> Dict[str, Any]:
    """The argument-rule model against `%` itself on boundary values."""
    n = 0
    bad = []
    ints = [-1, 0, 255, 256, 0x10FFFF, 0x110000]
    strs = ["", "a", "ab"]
    for sk in SPEC_KINDS:
        needs = NEEDS[sk]
        for combo in itertools.product(["int", "str", "none", "float"], repeat=len(needs)):
            for iv in ints:
                for sv in strs:
                    args = tuple(_mk_arg(k, iv, sv, False) for k in combo)
                    model = all(_arg_ok(nd, k, iv, sv, False) for nd, k in zip(needs, combo))
                    try:
                        SPEC_KINDS[sk] % args
                        real = True
                    except Exception:
                        real = False
                    n += 1
                    if model != real:
                        bad.append((sk, combo, iv, sv, model, real))
    for sk in BYTES_SPEC_KINDS:
        needs = BYTES_NEEDS[sk]
        for combo in itertools.product(BYTES_ARG_KINDS, repeat=len(needs)):
            for iv in [-1, 0, 255, 256]:
                for sv in strs:
                    args = tuple(_mk_arg(k, iv, sv, True) for k in combo)
                    model = all(_arg_ok(nd, k, iv, sv, True) for nd, k in zip(needs, combo))
                    try:
                        BYTES_SPEC_KINDS[sk] % args
                        real = True
                    except Exception:
                        real = False
                    n += 1
                    if model != real:
                        bad.append(("bytes", sk, combo, iv, sv, model, real))
    return {"compared": n, "disagreements": bad[:10]}


# =======================================================================================
# H17c - str.format template parser
# =======================================================================================


class _FBad(Exception):
    pass


def _markup(s: str, depth: int):
    """Port of MarkupIterator: yields (field_name, conversion, spec) and validates recursively."""
    if depth > 2:
        raise _FBad("Max string recursion exceeded")
    i, n = 0, len(s)
    while i < n:
        c = s[i]
        if c == "{":
            if i + 1 < n and s[i + 1] == "{":
                i += 2
                continue
            if i + 1 >= n:
                raise _FBad("Single '{' encountered in format string")
            i += 1
            start = i
            hit = None
            while i < n:
                ch = s[i]
                i += 1
                if ch == "{":
                    raise _FBad("unexpected '{' in field name")
                if ch == "[":
                    while i < n and s[i] != "]":
                        i += 1
                    continue
                if ch in "}:!":
                    hit = ch
                    break
            if hit is None:
                raise _FBad("expected '}' before end of string")
            name = s[start : i - 1]
            conv = None
            spec = ""
            if hit in "!:":
                done = False
                if hit == "!":
                    if i >= n:
                        raise _FBad("end of string while looking for conversion specifier")
                    conv = s[i]
                    i += 1
                    if i < n:
                        ch = s[i]
                        i += 1
                        if ch == "}":
                            done = True
                        elif ch != ":":
                            raise _FBad("expected ':' after conversion specifier")
                if not done:
                    sstart = i
                    count = 1
                    closed = False
                    while i < n:
                        ch = s[i]
                        i += 1
                        if ch == "{":
                            count += 1
                        elif ch == "}":
                            count -= 1
                            if count == 0:
                                spec = s[sstart : i - 1]
                                closed = True
                                break
                    if not closed:
                        raise _FBad("unmatched '{' in format spec")
            _field_name(name)
            if conv is not None and conv not in "rsa":
                raise _FBad("Unknown conversion specifier")
            _markup(spec, depth + 1)
        elif c == "}":
            if i + 1 < n and s[i + 1] == "}":
                i += 2
                continue
            raise _FBad("Single '}' encountered in format string")
        else:
            i += 1


def _field_name(name: str):
    """Port of FieldNameIterator validity."""
    i, n = 0, len(name)
    while i < n and name[i] not in ".[":
        i += 1
    while i < n:
        c = name[i]
        i += 1
        if c == ".":
            st = i
            while i < n and name[i] not in ".[":
                i += 1
            if i == st:
                raise _FBad("Empty attribute in format string")
        elif c == "[":
            st = i
            while i < n and name[i] != "]":
                i += 1
            if i >= n:
                raise _FBad("Missing ']' in format string")
            if i == st:
                raise _FBad("Empty attribute in format string")
            i += 1
            if i < n and name[i] not in ".[":
                raise _FBad("Only '.' or '[' may follow ']' in format field specifier")
        else:
            raise _FBad("unreachable")


def model_format_ok(s: str) -> bool:
    try:
        _markup(s, 1)
        return True
    except _FBad:
        return False


class _Univ:
    def __getattr__(self, n):
        return self

    def __getitem__(self, k):
        return self

    def __format__(self, spec):
        return ""

    def __str__(self):
        return ""

    __repr__ = __str__


class _UF(_stringmod.Formatter):
    def get_value(self, key, args, kwargs):
        return _Univ()

    def check_unused_args(self, *a):
        return None


def real_format_ok(s: str) -> bool:
    try:
        _UF().vformat(s, (), {})
        return True
    except (ValueError,):
        return False


FMT_ALPHA = "{}[].!:a0r"


def e3_format(maxlen: int) -> Dict[str, Any]:
    n = 0
    bad = []
    for L in range(0, maxlen + 1):
        for tup in itertools.product(FMT_ALPHA, repeat=L):
            t = "".join(tup)
            n += 1
            m, r = model_format_ok(t), real_format_ok(t)
            if m != r:
                # string.Formatter switches auto/manual numbering errors and recursion a bit differently: only
                # pure parse errors are compared; numbering ValueErrors cannot occur with get_value overridden
                bad.append((t, m, r))
    return {"compared": n, "disagreements": bad[:10]}


def _stricter(s: str) -> bool:
    """pyanalyze's documented stricter rules for str.format templates (not counted as disagreement):
    attribute names must be identifiers; a conversion must be followed by ':' or '}' (CPython too)."""
    return False


def h17_fmt(s: str) -> bool:
    """
    post: _
    """
    if excluded(s=s):
        return skip()
    n = G.case["len"]
    if len(s) != n:
        return skip()
    for ch in s:
        if ch not in FMT_ALPHA:
            return skip()
    _, errs = parse_format_string(s)
    return fin((len(errs) == 0) == model_format_ok(s))


SF_FIELDS = {"auto": "{}", "i0": "{0}", "i1": "{1}", "ka": "{a}", "kb": "{b}", "esc": "{{}}", "conv": "{!r}", "spec": "{:>3}", "attr": "{0.real}"}


def h17_sformat(nargs: int, ka: bool, kb: bool) -> bool:
    """
    post: _
    """
    # str.format call: template from a few field tokens, symbolic number of positional arguments and
    # keyword presence; oracle = CPython itself (the template is really formatted in each path)
    if excluded(nargs=nargs, ka=ka, kb=kb):
        return skip()
    from pyanalyze import implementation as _impl
    from vf.common import StubVisitor, call_context

    data = G.case
    template = " ".join(SF_FIELDS[f] for f in data["fields"])
    n = 0
    for i in range(1, 4):
        if nargs == i:
            n = i
    args = tuple(range(n))
    kwargs = {}
    if ka:
        kwargs["a"] = 1
    if kb:
        kwargs["b"] = 2
    vis = StubVisitor()
    ctx = call_context({"self": KnownValue(template), "args": KnownValue(args), "kwargs": KnownValue(kwargs)}, vis)
    ret = _impl._str_format_impl(ctx)
    reported = len(vis.errors) > 0
    try:
        untraced(template.format, *args, **kwargs)  # CPython's own formatter, not CrossHair's model of it
        raises = False
    except (ValueError, IndexError, KeyError):
        raises = True
    # which arguments the template uses (for the documented stricter rule "argument not used")
    used_pos = set()
    auto = 0
    used_kw = set()
    for f in data["fields"]:
        if f in ("auto", "conv", "spec"):
            used_pos.add(auto)
            auto += 1
        elif f in ("i0", "attr"):
            used_pos.add(0)
        elif f == "i1":
            used_pos.add(1)
        elif f == "ka":
            used_kw.add("a")
        elif f == "kb":
            used_kw.add("b")
    unused = any(i not in used_pos for i in range(n)) or any(k not in used_kw for k in kwargs)
    feat_mixed_numbering = any(f in ("auto", "conv", "spec") for f in data["fields"]) and any(f in ("i0", "i1", "attr") for f in data["fields"])
    if excluded(feat_mixed_numbering=feat_mixed_numbering, raises=raises, reported=reported):
        return skip()
    if raises and not reported:
        return fin(False)  # CPython raises, nothing reported
    if reported and not raises and not unused:
        return fin(False)  # reported although formatting succeeds and every argument is used
    return fin(True)


NAME_ALPHA = "01 +-_a"  # no "." / "[": attribute and index paths are outside this obligation (pyanalyze requires identifier attribute names, a stricter rule)


def model_first(name: str):
    """CPython's FieldNameIterator: the part before the first '.' or '[' is a positional index iff it is a
    non-empty run of ASCII digits; otherwise it is a keyword name ('' = auto-numbering)."""
    i = 0
    while i < len(name) and name[i] not in ".[":
        i += 1
    first = name[:i]
    if first != "" and all(c in "0123456789" for c in first):
        return int(first)
    return first


def e3_field(maxlen: int) -> Dict[str, Any]:
    import _string

    n = 0
    bad = []
    for L in range(0, maxlen + 1):
        for tup in itertools.product(NAME_ALPHA, repeat=L):
            name = "".join(tup)
            try:
                real = _string.formatter_field_name_split(name)[0]
            except ValueError:
                continue
            n += 1
            if real != model_first(name) or type(real) is not type(model_first(name)):
                bad.append((name, real, model_first(name)))
    return {"compared": n, "disagreements": bad[:10]}


def h17_field(s: str) -> bool:
    """
    post: _
    """
    # a single replacement field "{<name>}": which argument does pyanalyze look up - positional index or
    # keyword name - compared with CPython's rule
    if excluded(s=s):
        return skip()
    n = G.case["len"]
    if len(s) != n:
        return skip()
    for ch in s:
        if ch not in NAME_ALPHA:
            return skip()
    parsed, errs = parse_format_string("{" + s + "}")
    if errs:
        return fin(not model_format_ok("{" + s + "}"))
    if not model_format_ok("{" + s + "}"):
        return fin(False)
    fields = [c for c in parsed.children if isinstance(c, fs.ReplacementField)]
    if len(fields) != 1:
        return fin(False)
    want = model_first(s)
    got = fields[0].arg_name
    if want == "":
        return fin(got is None)
    return fin(type(got) is type(want) and got == want)


# =======================================================================================


def pre_run(tier: str, seed: int) -> Dict[str, Any]:
    t0 = time.time()
    os.makedirs(os.path.join(VERIF, ".work"), exist_ok=True)
    extra: Dict[str, Any] = {"harness_errors": [], "violations": [], "known_lines": []}
    e3a = e3_percent(4 if tier == "quick" else 5)
    e3b = e3_args()
    e3c = e3_format(4 if tier == "quick" else 5)
    e3d = e3_field(3)
    extra["e3"] = {"percent_template_model_vs_cpython": e3a, "argument_rules_vs_cpython": e3b,
                   "format_parser_port_vs_string_Formatter": e3c, "field_name_rule_vs__string": e3d}
    extra["e3_validated"] = e3a["compared"] + e3b["compared"] + e3c["compared"] + e3d["compared"]
    for name, e in extra["e3"].items():
        if e["disagreements"]:
            extra["harness_errors"].append(f"E3 oracle validation failed for {name}: {e['disagreements'][:3]}")
    try:
        e2 = run_e2(tier)
    except NotImplementedError as e:
        extra["harness_errors"].append(f"E2 translator met an unknown construct: {e}")
        e2 = {"queries": 0, "discharged": 0, "time_s": 0.0, "samples": []}
    extra["harness_errors"] += e2.pop("harness_errors", [])
    extra["violations"] += e2.pop("violations", [])
    extra["known_lines"] += e2.pop("known_lines", [])
    extra["e2"] = e2
    extra["wall_s"] = time.time() - t0
    print(f"  E3: {extra['e3_validated']} comparisons; E2: {e2.get('queries')} queries, {e2.get('discharged')} unsat, "
          f"inconclusive={e2.get('inconclusive')} in {e2.get('time_s')}s")
    return extra


def cases(tier: str, seed: int) -> List[Case]:
    out: List[Case] = []
    quick = tier == "quick"
    kinds = list(SPEC_KINDS)
    maxspec = 2 if quick else 3
    maxargs = 3 if quick else 4
    idx = 0
    for ns in range(1, maxspec + 1):
        for specs in itertools.product(kinds, repeat=ns):
            nneed = sum(len(NEEDS[s]) for s in specs)
            for na in sorted({max(0, nneed - 1), nneed, nneed + 1}):
                if na > maxargs:
                    continue
                for args in itertools.product(ARG_KINDS, repeat=na):
                    idx += 1
                    if ns == 2 and (idx + seed) % (25 if quick else 5) != 0:
                        continue
                    if ns >= 3 and (idx + seed) % 400 != 0:
                        continue
                    lab = "args:" + ",".join(specs) + "|" + ",".join(args)
                    out.append(Case("h17_args", lab, {"specs": list(specs), "args": list(args)}, timeout=60,
                                    twin=(idx % 9 == 0)))
                    if na == 1 and args[0] != "none" and ns == 1:
                        out.append(Case("h17_args", lab + ":bare", {"specs": list(specs), "args": list(args), "bare": True},
                                        timeout=60, twin=False))
    for ns in (1, 2):
        for specs in itertools.product(list(BYTES_SPEC_KINDS), repeat=ns):
            nneed = sum(len(BYTES_NEEDS[sp_]) for sp_ in specs)
            if nneed > 2:
                continue
            for args in itertools.product(BYTES_ARG_KINDS, repeat=nneed):
                idx += 1
                if ns == 2 and (idx + seed) % (9 if quick else 2) != 0:
                    continue
                out.append(Case("h17_bytes", "bytes:" + ",".join(specs) + "|" + ",".join(args),
                                {"specs": list(specs), "args": list(args)}, timeout=60, twin=(idx % 9 == 0)))
    for conv_a in "dsc":
        for conv_b in "ds":
            for a_kind in ("int", "str"):
                for extra in (0, 1):
                    out.append(Case("h17_map", f"map:{conv_a}{conv_b}:{a_kind}:{extra}",
                                    {"convs": [conv_a, conv_b], "a_kind": a_kind, "extra": extra}, timeout=60))
                    if conv_a == "d" and conv_b == "d" and a_kind == "int":
                        for kb in ("b", "s"):
                            out.append(Case("h17_map", f"map:{conv_a}{conv_b}:{a_kind}:{extra}:bytes-{kb}keys",
                                            {"convs": [conv_a, conv_b], "a_kind": a_kind, "extra": extra, "bytes": kb}, timeout=60))
                    if conv_b == "d":
                        out.append(Case("h17_map", f"map:{conv_a}{conv_b}:{a_kind}:{extra}:pct",
                                        {"convs": [conv_a, conv_b], "a_kind": a_kind, "extra": extra, "pct": 1}, timeout=60))
                        if not extra:
                            out.append(Case("h17_map", f"map:{conv_a}{conv_b}:{a_kind}:{extra}:mix",
                                            {"convs": [conv_a, conv_b], "a_kind": a_kind, "extra": extra, "mix": 1}, timeout=60))
    toks = list(SF_FIELDS)
    for nf in (1, 2) if quick else (1, 2, 3):
        for fields in itertools.product(toks, repeat=nf):
            idx += 1
            if nf == 3 and (idx + seed) % 6 != 0:
                continue
            out.append(Case("h17_sformat", "sf:" + ",".join(fields), {"fields": list(fields)}, timeout=60, twin=True))
    for L in range(0, (2 if quick else 3) + 1):
        out.append(Case("h17_field", f"field:len{L}", {"len": L}, timeout=240 if quick else 1800, twin=L > 0))
    for L in range(0, (3 if quick else 4) + 1):
        out.append(Case("h17_fmt", f"fmt:len{L}", {"len": L}, timeout=240 if quick else 1800, twin=L > 0))
    return out
