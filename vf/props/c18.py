"""C18 - configuration layering follows the documented precedence.

The real parser (`parse_config_file` -> `_parse_config_section`), instance ordering
(`ConfigOption.sort_key`), lookup (`get_value_from_instances`, `ConcatenatedOption`) and
`Options.from_option_list / for_module / get_value_for / is_error_code_enabled` run unchanged.
Only the file system and the TOML reader are replaced: paths are `FakePath` objects and
`tomli.load` returns an in-memory section whose option *values are symbolic*.
"""

from __future__ import annotations

import itertools
from typing import List, Optional, Tuple

import pyanalyze.name_check_visitor  # noqa: F401  registers the option classes
from pyanalyze import options as opts
from pyanalyze.error_code import ErrorCode
from pyanalyze.options import ConfigOption, InvalidConfigOption, Options

from vf.engine import Case
from vf.g import G, excluded, fin, skip

ID = "C18"
FUNCTIONS_ENCODED = [
    "pyanalyze.options.parse_config_file (file system replaced by FakePath, tomli.load by an in-memory section)",
    "pyanalyze.options._parse_config_section",
    "pyanalyze.options.ConfigOption.sort_key / is_applicable_to / get_value_from_instances",
    "pyanalyze.options.ConcatenatedOption.get_value_from_instances",
    "pyanalyze.options.Options.from_option_list / for_module / get_value_for / is_error_code_enabled",
    "pyanalyze.options.BooleanOption.parse / IntegerOption.parse / StringSequenceOption.parse",
]
BOUNDS = {
    "quick": {"files": "<= 2 chained by extend_config", "overrides_per_file": "<= 2 from prefixes {a, a.b, b}",
              "values": "all option values symbolic and unbounded (int / bool); list elements are distinct markers",
              "query": "symbolic choice among 7 module paths of length 0..3", "command_line": "symbolic presence"},
    "thorough": {"files": "<= 3 chained by extend_config", "overrides_per_file": "<= 2 from prefixes {a, a.b, b}",
                 "values": "all option values symbolic and unbounded", "query": "symbolic choice among 7 module paths",
                 "command_line": "symbolic presence"},
}
OUTSIDE = ["TOML parsing, path resolution on a real file system, argparse",
           "a bool given where an integer option is expected (Python: bool is int) is not counted as a wrong type"]
STUBS = ["FakePath (resolve/open/parent//) instead of pathlib.Path", "tomli.load returns the in-memory section of the opened fake file"]
ASSUMPTIONS = ["the precedence oracle is the sentence of the property statement, 25 lines"]

INT_OPT = ConfigOption.registry["union_simplification_limit"]
LIST_OPT = ConfigOption.registry["extra_builtins"]
BOOL_ON = ErrorCode.undefined_name  # enabled by default
BOOL_OFF = ErrorCode.missing_f  # disabled by default

QUERIES: List[Tuple[str, ...]] = [(), ("a",), ("a", "b"), ("a", "c"), ("b",), ("a", "b", "c"), ("c", "a")]
PREFIXES = ["a", "a.b", "b"]


class FakeFile:
    def __init__(self, name):
        self.name = name

    def __enter__(self):
        return self

    def __exit__(self, *a):
        return False


class FakeDir:
    def __truediv__(self, value):
        return FakePath(value)


class FakePath:
    FILES: set = set()

    def __init__(self, name):
        self.name = name

    def resolve(self, strict=False):
        if self.name not in FakePath.FILES:
            raise FileNotFoundError(self.name)
        return self

    def __eq__(self, o):
        return isinstance(o, FakePath) and o.name == self.name

    def __hash__(self):
        return hash(("FakePath", self.name))

    def open(self, mode="rb"):
        return FakeFile(self.name)

    @property
    def parent(self):
        return FakeDir()

    def __repr__(self):
        return f"FakePath({self.name!r})"


_SECTIONS = {}
_REAL_TOML_LOAD = opts.tomli.load  # captured before prepare() replaces it


def _fake_load(f):
    return _SECTIONS[f.name]


def prepare(template, data):
    opts.tomli.load = _fake_load  # the only patched attribute; the module under test is otherwise untouched


# ---------------------------------------------------------------------------------------
# oracle (from the property statement)
# ---------------------------------------------------------------------------------------


def _matches(prefix: Tuple[str, ...], query: Tuple[str, ...]) -> bool:
    return query[: len(prefix)] == prefix


def oracle_scalar(files, cmd, query, default):
    """files: list (main first) of {"top": value-or-ABSENT, "ovs": [(prefix tuple, value-or-ABSENT)]}"""
    if cmd is not ABSENT:
        return cmd
    for f in files:
        best = None
        for prefix, val in f["ovs"]:
            if val is ABSENT:
                continue
            if _matches(prefix, query) and (best is None or len(prefix) > len(best[0])):
                best = (prefix, val)
        if best is not None:
            return best[1]
        if f["top"] is not ABSENT:
            return f["top"]
    return default


def oracle_list(files, cmd, query, default):
    out = []
    if cmd is not ABSENT:
        out += cmd
    for f in files:
        ms = [(p, v) for p, v in f["ovs"] if v is not ABSENT and _matches(p, query)]
        ms.sort(key=lambda pv: -len(pv[0]))
        for _, v in ms:
            out += v
        if f["top"] is not ABSENT:
            out += f["top"]
    out += default
    return out


class _Absent:
    def __repr__(self):
        return "ABSENT"


ABSENT = _Absent()


def _effective(explicit, disable_all):
    """Value a section gives an error code: explicit setting, else False under a truthy disable_all."""
    if explicit is not ABSENT:
        return explicit
    if disable_all is not ABSENT and disable_all:
        return False
    return ABSENT


# ---------------------------------------------------------------------------------------
# harness
# ---------------------------------------------------------------------------------------


def _run(kind, data, vals, das, has_cmd, cmdval, qsel):
    """Build the in-memory files for the structural case `data` with symbolic values `vals`."""
    global _SECTIONS
    files_struct = data["files"]
    names = [f"f{i}" for i in range(len(files_struct))]
    FakePath.FILES = set(names)
    if kind == "int":
        key, optcls = INT_OPT.name, INT_OPT
    elif kind == "list":
        key, optcls = LIST_OPT.name, LIST_OPT
    else:
        code = BOOL_ON if kind == "bool_on" else BOOL_OFF
        key, optcls = code.name, ConfigOption.registry[code.name]
    vi = 0
    di = 0
    sections = {}
    model = []
    for i, fs in enumerate(files_struct):
        sec = {}
        if i + 1 < len(files_struct) and data.get("extend_first", True):
            # the documented layout: extend_config is the first key of [tool.pyanalyze]
            sec["extend_config"] = names[i + 1]
        mf = {"top": ABSENT, "ovs": []}
        top_da = ABSENT
        if fs.get("da_top"):
            top_da = das[di]
            di += 1
            sec["disable_all"] = top_da
        top_explicit = ABSENT
        if fs["top"]:
            v = vals[vi]
            vi += 1
            sec[key] = v
            top_explicit = v
        if kind.startswith("bool"):
            mf["top"] = _effective(top_explicit, top_da)
        else:
            mf["top"] = top_explicit
        ovs = []
        for j, (prefix, has_val, has_da) in enumerate(fs["ovs"]):
            ov = {"module": prefix}
            da = ABSENT
            if has_da:
                da = das[di]
                di += 1
                ov["disable_all"] = da
            explicit = ABSENT
            if has_val:
                v = vals[vi]
                vi += 1
                ov[key] = v
                explicit = v
            ovs.append(ov)
            eff = _effective(explicit, da) if kind.startswith("bool") else explicit
            mf["ovs"].append((tuple(prefix.split(".")), eff))
        if ovs:
            sec["overrides"] = ovs
        if i + 1 < len(files_struct) and not data.get("extend_first", True):
            sec["extend_config"] = names[i + 1]
        sections[names[i]] = {"tool": {"pyanalyze": sec}}
        model.append(mf)
    _SECTIONS = sections
    instances = []
    cmd = ABSENT
    if has_cmd:
        instances.append(optcls(cmdval, from_command_line=True))
        cmd = cmdval
    options = Options.from_option_list(instances, config_file_path=FakePath("f0"))
    # selector: values outside 0..5 select the last query (no precondition: CrossHair does not prune
    # precondition-failing leaves, so bounds are expressed as total functions / early returns)
    query = QUERIES[-1]
    for qi in range(len(QUERIES) - 1):
        if qsel == qi:
            query = QUERIES[qi]
            break
    got_opts = options.for_module(query)
    if kind == "int":
        got = got_opts.get_value_for(optcls)
        want = oracle_scalar(model, cmd, query, optcls.default_value)
        return got == want
    if kind == "list":
        got = list(got_opts.get_value_for(optcls))
        want = oracle_list(model, cmd, query, list(optcls.default_value))
        return got == want
    code = BOOL_ON if kind == "bool_on" else BOOL_OFF
    got = got_opts.is_error_code_enabled(code)
    got2 = got_opts.get_value_for(optcls)
    want = oracle_scalar(model, cmd, query, optcls.default_value)
    return got == want and got2 == want


def h18_int(v0: int, v1: int, v2: int, v3: int, v4: int, v5: int, v6: int, v7: int, v8: int,
            has_cmd: bool, cmdval: int, qsel: int) -> bool:
    """
    post: _
    """
    return fin(_run("int", G.case, (v0, v1, v2, v3, v4, v5, v6, v7, v8), (), has_cmd, cmdval, qsel))


def h18_bool(v0: bool, v1: bool, v2: bool, v3: bool, v4: bool, v5: bool, v6: bool, v7: bool, v8: bool,
             d0: bool, d1: bool, d2: bool, d3: bool, d4: bool, d5: bool, d6: bool, d7: bool, d8: bool,
             has_cmd: bool, cmdval: bool, qsel: int) -> bool:
    """
    post: _
    """
    return fin(_run(G.case["kind"], G.case, (v0, v1, v2, v3, v4, v5, v6, v7, v8),
                    (d0, d1, d2, d3, d4, d5, d6, d7, d8), has_cmd, cmdval, qsel))


def h18_list(n0: int, n1: int, n2: int, has_cmd: bool, qsel: int) -> bool:
    """
    post: _
    """
    # every source contributes a list of distinct marker strings; the lengths of the first three
    # sources are symbolic (0..2), the rest have one element
    ns = (n0, n1, n2)
    vals = []
    for i in range(9):
        if i < 2:
            lst = []
            for k in range(2):
                if k < ns[i]:  # n <= 0: empty, n == 1: one element, n >= 2: two elements
                    lst.append(f"s{i}_{k}")
            vals.append(lst)
        else:
            vals.append([f"s{i}_0"])
    return fin(_run("list", G.case, vals, (), has_cmd, ["cmd_0", "cmd_1"], qsel))


def h18_reject(x: int, b: bool, s: str) -> bool:
    """
    post: _
    """
    if len(s) > 2:
        return skip()
    # configuration errors must be raised, not ignored - for every offending value
    global _SECTIONS
    data = G.case
    what = data["what"]
    FakePath.FILES = {"f0", "f1"}
    good = {INT_OPT.name: 3}
    if what == "unknown_key":
        sec = {"no_such_option": x}
    elif what == "int_gets_str":
        sec = {INT_OPT.name: s}
    elif what == "bool_gets_int":
        sec = {BOOL_ON.name: x}
    elif what == "list_gets_str":
        sec = {LIST_OPT.name: s}
    elif what == "list_gets_int_elements":
        sec = {LIST_OPT.name: ["ok", x]}
    elif what == "list_gets_int":
        sec = {LIST_OPT.name: x}
    elif what == "nested_overrides":
        sec = {"overrides": [{"module": "a", "overrides": [{"module": "a.b", INT_OPT.name: x}]}]}
    elif what == "override_without_module":
        sec = {"overrides": [{INT_OPT.name: x}]}
    elif what == "override_module_not_str":
        sec = {"overrides": [{"module": x, INT_OPT.name: 1}]}
    elif what == "overrides_not_list":
        sec = {"overrides": x}
    elif what == "override_not_dict":
        sec = {"overrides": [x]}
    elif what == "toplevel_module":
        sec = {"module": s, INT_OPT.name: x}
    elif what == "extend_not_str":
        sec = {"extend_config": x}
    elif what == "extend_missing_file":
        sec = {"extend_config": "nofile"}
    elif what == "recursive_self":
        sec = {"extend_config": "f0", INT_OPT.name: x}
    elif what == "recursive_cycle":
        sec = {"extend_config": "f1", INT_OPT.name: x}
    elif what == "unknown_key_in_override":
        sec = {"overrides": [{"module": "a", "bogus_key": b}]}
    elif what == "wrong_type_in_override":
        sec = {"overrides": [{"module": "a", BOOL_OFF.name: x}]}
    elif what == "wrong_type_in_extended":
        sec = {"extend_config": "f1"}
    elif what == "int_gets_bool":
        sec = {INT_OPT.name: b}
    elif what == "int_gets_bool_in_override":
        sec = {"overrides": [{"module": "a", INT_OPT.name: b}]}
    elif what == "disable_all_gets_int":
        sec = {"disable_all": x}
    elif what == "disable_all_gets_str":
        sec = {"disable_all": s}
    elif what == "disable_all_gets_int_in_override":
        sec = {"overrides": [{"module": "a", "disable_all": x}]}
    elif what == "extend_in_override":
        # an override for module a must not pull a whole file into every module's settings
        sec = {"overrides": [{"module": "a", "extend_config": "f1"}]}
    else:
        raise AssertionError(what)
    f1 = {"extend_config": "f0"} if what == "recursive_cycle" else (
        {BOOL_ON.name: s} if what == "wrong_type_in_extended" else dict(good))
    _SECTIONS = {"f0": {"tool": {"pyanalyze": sec}}, "f1": {"tool": {"pyanalyze": f1}}}
    try:
        Options.from_option_list([], config_file_path=FakePath("f0"))
    except InvalidConfigOption:
        return fin(True)
    return fin(False)


def public_replay(template, data, args, kwargs):
    """Public route for an h18_int counterexample: the same stack written as real TOML files in a scratch
    directory and read by the unpatched parse_config_file through pathlib."""
    if template != "h18_int":
        return {"note": "no public route generated for this template"}
    import importlib
    import shutil
    import tempfile
    from pathlib import Path

    vals = list(args[:9])
    has_cmd, cmdval, qsel = args[9], args[10], args[11]
    d = Path(tempfile.mkdtemp(prefix="c18_replay_"))
    try:
        opts.tomli.load = _REAL_TOML_LOAD
        files = data["files"]
        vi = 0
        texts = {}
        for i, fs_ in enumerate(files):
            lines = ["[tool.pyanalyze]"]
            if i + 1 < len(files):
                lines.append(f'extend_config = "f{i + 1}.toml"')
            if fs_["top"]:
                lines.append(f"{INT_OPT.name} = {int(vals[vi])}")
                vi += 1
            for prefix, has_val, has_da in fs_["ovs"]:
                lines.append("[[tool.pyanalyze.overrides]]")
                lines.append(f'module = "{prefix}"')
                if has_val:
                    lines.append(f"{INT_OPT.name} = {int(vals[vi])}")
                    vi += 1
            texts[f"f{i}.toml"] = "\n".join(lines) + "\n"
            (d / f"f{i}.toml").write_text(texts[f"f{i}.toml"])
        instances = [INT_OPT(int(cmdval), from_command_line=True)] if has_cmd else []
        options = Options.from_option_list(instances, config_file_path=d / "f0.toml")
        query = QUERIES[qsel] if 0 <= qsel < len(QUERIES) - 1 else QUERIES[-1]
        got = options.for_module(query).get_value_for(INT_OPT)
        return {"files": texts, "command_line": int(cmdval) if has_cmd else None, "module": ".".join(query),
                "effective_value_from_real_files": got}
    finally:
        opts.tomli.load = _fake_load
        shutil.rmtree(d, ignore_errors=True)


REJECTS = [
    "unknown_key", "int_gets_str", "bool_gets_int", "list_gets_str", "list_gets_int_elements", "list_gets_int",
    "nested_overrides", "override_without_module", "override_module_not_str", "overrides_not_list",
    "override_not_dict", "toplevel_module", "extend_not_str", "extend_missing_file", "recursive_self",
    "recursive_cycle", "unknown_key_in_override", "wrong_type_in_override", "wrong_type_in_extended",
    "int_gets_bool", "int_gets_bool_in_override", "disable_all_gets_int", "disable_all_gets_str",
    "disable_all_gets_int_in_override", "extend_in_override",
]


def _file_shapes(with_da: bool):
    """(top?, overrides) per file; overrides = unordered subsets of PREFIXES of size <= 2, emitted in
    both orders when two."""
    shapes = []
    subsets = [()]
    subsets += [(p,) for p in PREFIXES]
    subsets += list(itertools.permutations(PREFIXES, 2))
    for top in (0, 1):
        for sub in subsets:
            shapes.append({"top": top, "ovs": [[p, 1, 0] for p in sub]})
    if with_da:
        extra = []
        for sub in subsets:
            # disable_all at top level / inside an override, with and without an explicit value
            extra.append({"top": 0, "da_top": 1, "ovs": [[p, 1, 0] for p in sub]})
            extra.append({"top": 1, "da_top": 1, "ovs": [[p, 0, 1] for p in sub]})
            if sub:
                extra.append({"top": 1, "ovs": [[p, 1, 1] for p in sub]})
        shapes += extra
    return shapes


def _label(files):
    def one(f):
        s = ("T" if f["top"] else "-") + ("D" if f.get("da_top") else "")
        for p, hv, hd in f["ovs"]:
            s += "," + p + ("=" if hv else "") + ("!" if hd else "")
        return s
    return "|".join(one(f) for f in files)


def _nvals(files):
    return sum(f["top"] + sum(hv for _, hv, _ in f["ovs"]) for f in files)


def _ndas(files):
    return sum(int(bool(f.get("da_top"))) + sum(hd for _, _, hd in f["ovs"]) for f in files)


def cases(tier: str, seed: int) -> List[Case]:
    out: List[Case] = []
    quick = tier == "quick"
    maxfiles = 2 if quick else 3
    plain = _file_shapes(False)
    with_da = _file_shapes(True)
    stacks = []
    for n in range(1, maxfiles + 1):
        for combo in itertools.product(range(len(plain)), repeat=n):
            stacks.append(combo)
    for idx, combo in enumerate(stacks):
        files = [plain[i] for i in combo]
        if _nvals(files) > 9:
            continue
        lab = _label(files)
        n = len(files)
        take_int = True
        if quick and n == 2:
            take_int = True
        if not quick and n == 3:
            take_int = (idx + seed) % 8 == 0
        if take_int:
            ef = (idx % 4 != 3) if n > 1 else True  # extend_config first (documented layout) in 3 of 4 stacks
            out.append(Case("h18_int", f"int:{lab}" + ("" if ef else ":xlast"), {"files": files, "extend_first": ef},
                            timeout=60, twin=(idx % 10 == 0)))
        take_list = (idx + seed) % (9 if quick else 24) == 1 or n == 1
        if take_list:
            out.append(Case("h18_list", f"list:{lab}", {"files": files}, timeout=90, twin=(idx % 10 == 1)))
    bstacks = []
    for n in range(1, maxfiles + 1):
        for combo in itertools.product(range(len(with_da)), repeat=n):
            bstacks.append(combo)
    for idx, combo in enumerate(bstacks):
        files = [with_da[i] for i in combo]
        if _nvals(files) > 9 or _ndas(files) > 9:
            continue
        n = len(files)
        has_da = _ndas(files) > 0
        # every symbolic bool doubles the path count (the parser branches on `value is True` and on
        # a truthy disable_all): at most 3 symbolic booleans per case (4 in thorough)
        if _nvals(files) + _ndas(files) > (3 if quick else 4):
            continue
        mod = {1: 1, 2: (3 if quick else 2), 3: 12}[n]
        if (idx + seed) % mod != 0:
            continue
        kind = "bool_on" if (idx // mod) % 2 == 0 else "bool_off"
        out.append(Case("h18_bool", f"{kind}:{_label(files)}", {"files": files, "kind": kind}, timeout=90,
                        twin=(idx % 7 == 0)))
    for what in REJECTS:
        out.append(Case("h18_reject", f"reject:{what}", {"what": what}, timeout=60))
    return out
