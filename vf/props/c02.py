"""C02 - narrowing never loses the actual value and never widens.

Constraints are produced by the real factories - `NameCheckVisitor._constraint_from_compare_op` and
`_constraint_from_predicate_provider` called as plain functions on a stub `self` (they use it only
as assignability context and for the variable name), `implementation._isinstance_impl`,
`implementation._len_impl` - combined with the real `invert` / `AndConstraint.make` /
`OrConstraint.make` and applied with the real `constrain_value`.

Structure: the shape of the declared value V, the condition kind, polarity, the kind of the runtime
object.  Solver variables: the object's payload, every literal inside V, every constant a condition
compares with, and a second object for the no-widening obligation.
"""

from __future__ import annotations

import ast
import itertools
from typing import Any, List

from pyanalyze import implementation as impl
from pyanalyze.boolability import get_boolability
from pyanalyze.name_check_visitor import NameCheckVisitor
from pyanalyze.signature import ImplReturn
from pyanalyze.stacked_scopes import (
    AndConstraint,
    Composite,
    Constraint,
    ConstraintType,
    OrConstraint,
    VarnameWithOrigin,
    constrain_value,
    extract_constraints,
)
from pyanalyze.value import (
    AnnotatedValue,
    AnyValue,
    CustomCheckExtension,
    GenericValue,
    KnownValue,
    MultiValuedValue,
    SequenceValue,
    SubclassValue,
    TypedValue,
    Value,
    flatten_values,
)

from vf import member as M
from vf.common import StubVisitor, call_context, get_checker, install_coarse_hash
from vf.engine import Case
from vf.g import G, excluded, fin, skip

ID = "C02"
FUNCTIONS_ENCODED = [
    "pyanalyze.stacked_scopes.constrain_value / _constrain_value", "pyanalyze.stacked_scopes.Constraint.apply_to_value (is_instance, is_value, is_truthy, predicate, one_of, all_of)",
    "pyanalyze.stacked_scopes.Constraint.invert / AndConstraint.make / apply / invert / OrConstraint.make / apply / invert",
    "pyanalyze.stacked_scopes.extract_constraints / annotate_with_constraint (constraints carried by the value of a boolean `or`, incl. a disjunct without constraint)",
    "pyanalyze.predicates.IsAssignablePredicate / EqualsPredicate / InPredicate",
    "pyanalyze.name_check_visitor.NameCheckVisitor._constraint_from_compare_op / _constraint_from_predicate_provider (on a stub self)",
    "pyanalyze.name_check_visitor.NameCheckVisitor._visit_single_compare (on the same stub: which operand is the constant, mirrored operators)",
    "pyanalyze.implementation._isinstance_impl / _issubclass_impl / _len_impl / len_of_value / len_transformer",
    "pyanalyze.boolability.get_boolability", "pyanalyze.value.is_overlapping / can_overlap, pyanalyze.annotated_types checks",
]
BOUNDS = {
    "quick": {"values": "23 value shapes (literals, unions, scalars, Optional, tuples, enum, classes, type[A])",
              "conditions": "is/is not None|True|enum member, == / != / < / <= / > / >= k, in / not in (a, b), truthiness, isinstance against 9 type sets, issubclass against 4, len(x) OP n; both polarities; a rotating half of the (value, condition) pairs",
              "data": "object payloads, literals in V, comparison constants: unbounded ints; str <= 2 chars; tuples <= 2 elements"},
    "thorough": {"values": "same", "conditions": "all pairs; and / or of two conditions on a sample", "data": "same"},
}
OUTSIDE = ["how visit_Compare (chains) / visit_BoolOp / visit_Call / patma select the constraint for a syntax tree; the dunder call and unsafe-comparison lint inside _visit_single_compare are stubbed", "TypeIs / TypeGuard functions and match patterns (need signature lookup through the visitor)",
           "scope bookkeeping of where a constraint is active", "for == / != / in the object has the type of the compared constant (no bool/int/float cross-type equality), as the property states"]
STUBS = ["stub self for the two constraint factories (real Checker as CanAssignContext, composite_from_node returns the variable)", "coarse-hash stub"]
ASSUMPTIONS = ["membership of an object in a narrowed Value: vmember() below (60 lines) mirrors vf/member.py on Value objects"]

VN = VarnameWithOrigin("x")
NODE = ast.Name(id="x")


class StubSelf:
    def __init__(self):
        self._chk = get_checker()

    def __getattr__(self, name):
        return getattr(self._chk, name)

    def composite_from_node(self, node):
        return Composite(TypedValue(object), VN, node)

    # for the real NameCheckVisitor._visit_single_compare run on this stub (conditions tagged "via" / "rev"):
    # the dispatch on which operand is the constant and the two factories are real, the dunder call of the
    # comparison itself and the unsafe-comparison lint are not part of the narrowing
    _constraint_from_compare_op = NameCheckVisitor._constraint_from_compare_op
    _constraint_from_predicate_provider = NameCheckVisitor._constraint_from_predicate_provider

    def check_for_unsafe_comparison(self, op, lhs, rhs, node):
        return None

    def _visit_binop_internal(self, *args, **kwargs):
        return TypedValue(bool)


def _via_compare(stub, var_value: Value, k, op: str, rev: bool):
    """constraint of `x OP k` (or `k OP x` when rev) as NameCheckVisitor._visit_single_compare produces it;
    var_value is the value of the non-constant operand (the variable, or the value of len(x))"""
    const_node = ast.Constant(value=0)
    if rev:
        ret = NameCheckVisitor._visit_single_compare(stub, const_node, KnownValue(k), CMP[op](), NODE, var_value, const_node)
    else:
        ret = NameCheckVisitor._visit_single_compare(stub, NODE, var_value, CMP[op](), const_node, KnownValue(k), const_node)
    return extract_constraints(ret)


def prepare(template, data):
    get_checker()
    install_coarse_hash()
    saved = G.case
    G.case = data
    try:
        for args in ((0, 1, 0, 1, 2, 0, "a", "b"), (1, 0, 1, 0, 0, 1, "", "a")):
            try:
                globals()[template](*args)
            except Exception:
                pass
    finally:
        G.case = saved


# ----------------------------------------------------------------------------------------
# membership of a runtime object in a pyanalyze Value (after narrowing)
# ----------------------------------------------------------------------------------------


def vmember(o, v: Value) -> bool:
    if isinstance(v, MultiValuedValue):
        for sub in v.vals:
            if vmember(o, sub):
                return True
        return False
    if isinstance(v, AnyValue):
        return True
    if isinstance(v, AnnotatedValue):
        if not vmember(o, v.value):
            return False
        for ext in v.metadata:
            if isinstance(ext, CustomCheckExtension):
                chk = ext.custom_check
                name = type(chk).__name__
                try:
                    if name == "Gt" and not (o > chk.value):
                        return False
                    if name == "Ge" and not (o >= chk.value):
                        return False
                    if name == "Lt" and not (o < chk.value):
                        return False
                    if name == "Le" and not (o <= chk.value):
                        return False
                    if name == "MinLen" and not (len(o) >= chk.value):
                        return False
                    if name == "MaxLen" and not (len(o) <= chk.value):
                        return False
                except TypeError:
                    return False
        return True
    if isinstance(v, KnownValue):
        if v.val is None or isinstance(v.val, (M.Color, M.Perm, type)) or v.val is True or v.val is False:
            return o is v.val
        return type(o) is type(v.val) and o == v.val
    if isinstance(v, SequenceValue):
        if v.typ is not tuple or not isinstance(o, tuple):
            return isinstance(o, v.typ) if isinstance(v.typ, type) and v.typ is not tuple else False
        members = v.get_member_sequence()
        if members is None:
            # prefix + variadic tail (the only variadic layout in the vocabulary)
            fixed = [m for many, m in v.members if not many]
            many = [m for mn, m in v.members if mn]
            if len(o) < len(fixed):
                return False
            for e, m in zip(o, fixed):
                if not vmember(e, m):
                    return False
            for e in o[len(fixed):]:
                if not vmember(e, many[0]):
                    return False
            return True
        if len(members) != len(o):
            return False
        for e, m in zip(o, members):
            if not vmember(e, m):
                return False
        return True
    if isinstance(v, GenericValue):
        if v.typ is tuple:
            if not isinstance(o, tuple):
                return False
            for e in o:
                if not vmember(e, v.args[0]):
                    return False
            return True
        return isinstance(o, v.typ)
    if isinstance(v, SubclassValue):
        return isinstance(o, type) and isinstance(v.typ, TypedValue) and issubclass(o, v.typ.typ)
    if isinstance(v, TypedValue):
        t = v.typ
        if t is float:
            return isinstance(o, (float, int))
        if t is complex:
            return isinstance(o, (complex, float, int))
        return isinstance(o, t)
    raise AssertionError(f"vmember: unexpected value {v!r}")


# ----------------------------------------------------------------------------------------
# conditions
# ----------------------------------------------------------------------------------------

CMP = {"==": ast.Eq, "!=": ast.NotEq, "<": ast.Lt, "<=": ast.LtE, ">": ast.Gt, ">=": ast.GtE, "in": ast.In, "notin": ast.NotIn,
       "is": ast.Is, "isnot": ast.IsNot}
ISINSTANCE_SETS = {
    "int": int, "bool": bool, "float": float, "str": str, "none": type(None), "tuple": tuple, "A": M.A, "B": M.B,
    "int_str": (int, str),
}
SINGLETONS = {"None": None, "True": True, "RED": M.Color.RED, "PR": M.Perm.R}


def _py_cmp(op: str, o, k):
    if op == "==":
        return o == k
    if op == "!=":
        return o != k
    if op == "<":
        return o < k
    if op == "<=":
        return o <= k
    if op == ">":
        return o > k
    if op == ">=":
        return o >= k
    raise AssertionError(op)


def build(cond, k1, k2, s1, stub):
    """-> (AbstractConstraint, python predicate on an object (may raise TypeError), tested(o) for no-widening,
           same_type(o): the == / in restriction of the property)"""
    kind = cond[0]
    if kind == "cmp":
        op, ckind = cond[1], cond[2]
        k = k1 if ckind == "int" else s1
        mode = cond[3] if len(cond) > 3 else "direct"
        if mode == "direct":
            c = NameCheckVisitor._constraint_from_compare_op(stub, NODE, k, CMP[op](), is_right=True)
        else:
            c = _via_compare(stub, TypedValue(object), k, op, mode == "rev")
        if mode == "rev":  # `k OP x`
            return c, (lambda o: _py_cmp(op, k, o)), (lambda o: type(o) is type(k) and o == k), (lambda o: type(o) is type(k))
        return c, (lambda o: _py_cmp(op, o, k)), (lambda o: type(o) is type(k) and o == k), (lambda o: type(o) is type(k))
    if kind == "in":
        op = cond[1]
        tup = (k1, k2)
        c = NameCheckVisitor._constraint_from_compare_op(stub, NODE, tup, CMP[op](), is_right=True)
        f = (lambda o: o in tup) if op == "in" else (lambda o: o not in tup)
        return c, f, (lambda o: type(o) is int and (o == k1 or o == k2)), (lambda o: type(o) is int)
    if kind == "instr":
        # `x in "ab"`: substring containment, not membership among the characters
        op = cond[1]
        c = NameCheckVisitor._constraint_from_compare_op(stub, NODE, "ab", CMP[op](), is_right=True)
        f = (lambda o: o in "ab") if op == "in" else (lambda o: o not in "ab")
        return c, f, (lambda o: type(o) is str and o in "ab"), (lambda o: type(o) is str)
    if kind == "is":
        op, name = cond[1], cond[2]
        k = SINGLETONS[name]
        c = NameCheckVisitor._constraint_from_compare_op(stub, NODE, k, CMP[op](), is_right=True)
        f = (lambda o: o is k) if op == "is" else (lambda o: o is not k)
        return c, f, (lambda o: o is k), (lambda o: True)
    if kind == "truthy":
        c = Constraint(VN, ConstraintType.is_truthy, True, None)
        return c, (lambda o: bool(o)), (lambda o: False), (lambda o: True)
    if kind == "isinstance":
        typs = ISINSTANCE_SETS[cond[1]]
        vis = StubVisitor()
        ctx = call_context({"obj": TypedValue(object), "class_or_tuple": KnownValue(typs)}, vis)
        ctx.composites["obj"] = Composite(TypedValue(object), VN, NODE)
        ret = impl._isinstance_impl(ctx)
        c = extract_constraints(ret)
        return c, (lambda o: isinstance(o, typs)), (lambda o: isinstance(o, typs)), (lambda o: True)
    if kind == "issubclass":
        typs = {"A": M.A, "B": M.B, "int": int, "A_int": (M.A, int)}[cond[1]]
        vis = StubVisitor()
        ctx = call_context({"cls": TypedValue(object), "class_or_tuple": KnownValue(typs)}, vis)
        ctx.composites["cls"] = Composite(TypedValue(object), VN, NODE)
        ret = impl._issubclass_impl(ctx)
        c = extract_constraints(ret)
        return c, (lambda o: issubclass(o, typs)), (lambda o: isinstance(o, type) and issubclass(o, typs)), (lambda o: True)
    if kind == "len":
        op = cond[1]
        vis = StubVisitor()
        ctx = call_context({"obj": TypedValue(object)}, vis)
        ctx.composites["obj"] = Composite(TypedValue(object), VN, NODE)
        ret = impl._len_impl(ctx)
        pred = ret.constraint
        mode = cond[2] if len(cond) > 2 else "direct"
        if mode == "direct":
            c = NameCheckVisitor._constraint_from_predicate_provider(stub, pred, k1, CMP[op]())
        else:
            from pyanalyze.stacked_scopes import annotate_with_constraint

            c = _via_compare(stub, annotate_with_constraint(ret.return_value, pred), k1, op, mode == "rev")
        if mode == "rev":  # `k OP len(x)`
            return c, (lambda o: _py_cmp(op, k1, len(o))), (lambda o: False), (lambda o: True)
        return c, (lambda o: _py_cmp(op, len(o), k1)), (lambda o: False), (lambda o: True)
    raise AssertionError(cond)


def _narrow_check(V_t, c, f, tested, same_type, pol, o, o2):
    """The two obligations for one (constraint, polarity)."""
    V = M.to_value(V_t)
    constraint = c if pol else c.invert()
    narrowed = constrain_value(V, constraint)
    nontrivial = False
    # 1. the actual value is kept
    if M.member(o, V_t) and same_type(o):
        try:
            holds = f(o)
        except TypeError:
            holds = None  # the condition raises at run time: no branch is taken
        if holds is not None and bool(holds) == pol:
            nontrivial = True
            if not vmember(o, narrowed):
                return False, True
    # 2. nothing outside the original type and the tested type
    if vmember(o2, narrowed):
        nontrivial = True
        if not (M.member(o2, V_t) or tested(o2)):
            return False, True
    return True, nontrivial


def h02(p0: int, p1: int, k1: int, k2: int, oi: int, oj: int, s: str, s1: str) -> bool:
    """
    post: _
    """
    data = G.case
    if len(s) > 2 or len(s1) > 2:
        return skip()
    stub = StubSelf()
    V_t = M.instantiate(data["V"], (p0, p1), (True, False))
    o = M.make_object(data["okind"], oi, oj, s)
    o2 = M.make_object(data["okind2"], oj, oi, s)
    c, f, tested, same_type = build(data["cond"], k1, k2, s1, stub)
    pol = data["pol"]
    feat_float_else = data["cond"] == ["isinstance", "float"] and not pol
    if excluded(feat_float_else=feat_float_else, p0=p0, p1=p1, k1=k1, k2=k2, oi=oi, oj=oj):
        return skip()
    ok, nontrivial = _narrow_check(V_t, c, f, tested, same_type, pol, o, o2)
    return fin(ok, nontrivial)


def h02_pair(p0: int, p1: int, k1: int, k2: int, oi: int, oj: int, s: str, s1: str) -> bool:
    """
    post: _
    """
    data = G.case
    if len(s) > 2 or len(s1) > 2:
        return skip()
    stub = StubSelf()
    V_t = M.instantiate(data["V"], (p0, p1), (True, False))
    o = M.make_object(data["okind"], oi, oj, s)
    o2 = M.make_object(data["okind2"], oj, oi, s)
    c1, f1, t1, st1 = build(data["cond"], k1, k2, s1, stub)
    if data["join"] == "ornull":
        # `flag() or <cond>`: the value of a boolean `or` is the union of its operands' values; the first
        # carries no constraint at all.  extract_constraints must combine them so that nothing is narrowed
        # in the positive branch (flag() may be what held) and the negation narrows by not <cond>.
        from pyanalyze.stacked_scopes import annotate_with_constraint

        val = MultiValuedValue([TypedValue(bool), annotate_with_constraint(TypedValue(bool), c1)])
        if data.get("swap"):
            val = MultiValuedValue([annotate_with_constraint(TypedValue(bool), c1), TypedValue(bool)])
        c = extract_constraints(val)
        pol = data["pol"]
        f = (lambda x: True) if pol else (lambda x: bool(f1(x)))
        if excluded(p0=p0, p1=p1, k1=k1, k2=k2, oi=oi, oj=oj, feat_float_else=(data["cond"] == ["isinstance", "float"])):
            return skip()
        ok, nontrivial = _narrow_check(V_t, c, f, t1, st1, pol, o, o2)
        return fin(ok, nontrivial)
    c2, f2, t2, st2 = build(data["cond2"], k2, k1, s1, stub)
    if data["join"] == "and":
        c = AndConstraint.make([c1, c2])
        f = lambda x: bool(f1(x)) and bool(f2(x))  # noqa
    else:
        c = OrConstraint.make([c1, c2])
        f = lambda x: bool(f1(x)) or bool(f2(x))  # noqa
    tested = lambda x: t1(x) or t2(x)  # noqa
    same = lambda x: st1(x) and st2(x)  # noqa
    if excluded(p0=p0, p1=p1, k1=k1, k2=k2, oi=oi, oj=oj,
                feat_float_else=(["isinstance", "float"] in (data["cond"], data["cond2"]))):
        return skip()
    ok, nontrivial = _narrow_check(V_t, c, f, tested, same, data["pol"], o, o2)
    return fin(ok, nontrivial)


def h02_bool(p0: int, p1: int, oi: int, oj: int, s: str) -> bool:
    """
    post: _
    """
    # a verdict "always true" / "always false" is right for every object of the type
    data = G.case
    if len(s) > 2:
        return skip()
    V_t = M.instantiate(data["V"], (p0, p1), (True, False))
    o = M.make_object(data["okind"], oi, oj, s)
    if not M.member(o, V_t):
        return skip()
    b = get_boolability(M.to_value(V_t))
    if b.is_safely_true():
        return fin(bool(o) is True)
    if b.is_safely_false():
        return fin(bool(o) is False)
    return fin(True, nontrivial=False)


# ----------------------------------------------------------------------------------------

P0, P1 = M.P0, M.P1
VALUES = [
    ("lit", P0), ("union", ("lit", P0), ("lit", P1)), ("union", ("lit", P0), ("lit", P1), ("str",)), ("int",), ("bool",), ("str",), ("float",),
    ("object",), ("none",), ("union", ("int",), ("none",)), ("union", ("str",), ("none",)), ("union", ("int",), ("str",)),
    ("union", ("bool",), ("none",)), ("union", ("lit", P0), ("none",)), ("vtuple", ("int",)), ("tuple", ("int",), ("int",)),
    ("union", ("tuple", ("int",)), ("tuple", ("int",), ("int",))), ("pvtuple", ("int",), ("int",)), ("enum",),
    ("union", ("enum",), ("none",)), ("cls", "A"), ("union", ("cls", "B"), ("int",)), ("type", "A"), ("union", ("float",), ("str",)),
    ("lit", True), ("union", ("lit", "a"), ("int",)), ("type", "B"), ("union", ("type", "A"), ("none",)),
    ("list", ("int",)), ("union", ("list", ("int",)), ("none",)), ("union", ("str",), ("vtuple", ("int",))),
    ("dict", ("str",), ("int",)), ("union", ("lit", P0), ("lit", "a"), ("none",)), ("union", ("cls", "A"), ("cls", "B"), ("none",)),
    ("flag",), ("union", ("flag",), ("none",)), ("typeobj",),
]

CONDS = (
    [["cmp", op, "int"] for op in ("==", "!=", "<", "<=", ">", ">=")]
    + [["cmp", op, "str"] for op in ("==", "!=")]
    + [["in", "in"], ["in", "notin"]]
    + [["is", op, nm] for op in ("is", "isnot") for nm in ("None", "True", "RED", "PR")]
    + [["instr", "in"], ["instr", "notin"]]
    + [["truthy"]]
    + [["isinstance", nm] for nm in ISINSTANCE_SETS]
    + [["len", op] for op in ("==", "<", ">=", "!=", "<=", ">")]
    # the same comparisons through the real NameCheckVisitor._visit_single_compare: constant on the left ("rev":
    # `k OP x`, `k OP len(x)`) and, as a control of the route, constant on the right ("via")
    + [["cmp", op, "int", "rev"] for op in ("==", "!=", "<", "<=", ">", ">=")]
    + [["len", op, "rev"] for op in ("==", "!=", "<", "<=", ">", ">=")]
    + [["cmp", "<", "int", "via"], ["cmp", "==", "str", "rev"], ["len", ">", "via"]]
    + [["issubclass", nm] for nm in ("A", "B", "int", "A_int")]
)


def _okinds(V) -> List[str]:
    ks = M._compatible_kinds(V)
    return ks or ["int"]


def _second_kinds(cond) -> List[str]:
    # objects for the no-widening obligation: a scalar of the compared kind and an unrelated one
    if cond[0] == "cmp" and cond[2] == "str":
        return ["str"]
    if cond[0] == "len":
        return ["tuple2"]
    if cond[0] == "isinstance" and cond[1] in ("tuple",):
        return ["tuple1"]
    if cond[0] == "isinstance" and cond[1] in ("A", "B"):
        return ["instB"]
    if cond[0] == "isinstance" and cond[1] in ("str",):
        return ["str"]
    if cond[0] == "is":
        return {"RED": ["enum"], "PR": ["flagRW"]}.get(cond[2], ["none", "bool"])
    if cond[0] == "instr":
        return ["str"]
    if cond[0] == "issubclass":
        return ["clsB"]
    return ["int"]


def cname(c) -> str:
    return ":".join(str(x) for x in c)


def cases(tier: str, seed: int) -> List[Case]:
    out: List[Case] = []
    quick = tier == "quick"
    idx = 0
    for V in VALUES:
        for cond in CONDS:
            idx += 1
            pinned = cond in (["isinstance", "float"], ["cmp", "!=", "int"], ["is", "isnot", "RED"], ["truthy"],
                              ["cmp", "<", "int", "rev"], ["len", "<", "rev"], ["len", ">=", "rev"])
            pinned = pinned or (V in (("typeobj",), ("flag",)) and cond[0] in ("issubclass", "is"))
            if quick and (idx + seed) % 2 != 0 and not pinned:
                continue
            for pol in (True, False):
                for ok in _okinds(V)[:3]:
                    for ok2 in _second_kinds(cond)[:1]:
                        out.append(Case("h02", f"n:{M.tname(V)}|{cname(cond)}|{'+' if pol else '-'}|{ok}|{ok2}",
                                        {"V": V, "cond": cond, "pol": pol, "okind": ok, "okind2": ok2},
                                        timeout=60 if quick else 240, twin=True, vacuous_ok=True))
    for V in VALUES:
        for ok in _okinds(V):
            out.append(Case("h02_bool", f"b:{M.tname(V)}|{ok}", {"V": V, "okind": ok}, timeout=60, twin=True, vacuous_ok=True))
    # `flag() or <cond>`: a disjunct without any constraint (extract_constraints on a union value)
    for V in [("union", ("int",), ("str",)), ("union", ("int",), ("none",)), ("union", ("lit", P0), ("lit", P1), ("str",)), ("union", ("enum",), ("none",))]:
        for cond in (["isinstance", "int"], ["is", "is", "None"], ["cmp", "==", "int"], ["truthy"], ["isinstance", "str"]):
            for pol in (True, False):
                for swap in (0, 1):
                    for ok in _okinds(V)[:2]:
                        out.append(Case("h02_pair", f"o:{M.tname(V)}|{cname(cond)}|ornull{swap}|{'+' if pol else '-'}|{ok}",
                                        {"V": V, "cond": cond, "cond2": cond, "join": "ornull", "swap": swap, "pol": pol, "okind": ok,
                                         "okind2": "int"}, timeout=60 if quick else 240, twin=True, vacuous_ok=True))
    if not quick:
        pcs = [["cmp", "==", "int"], ["cmp", "<", "int"], ["is", "is", "None"], ["truthy"], ["isinstance", "int"], ["isinstance", "str"], ["len", "=="]]
        pvs = [("union", ("lit", P0), ("lit", P1), ("str",)), ("union", ("int",), ("none",)), ("union", ("int",), ("str",)),
               ("union", ("tuple", ("int",)), ("tuple", ("int",), ("int",))), ("union", ("enum",), ("none",))]
        for V in pvs:
            for c1, c2 in itertools.product(pcs, repeat=2):
                if c1 == c2:
                    continue
                for join in ("and", "or"):
                    for pol in (True, False):
                        ok = _okinds(V)[0]
                        out.append(Case("h02_pair", f"p:{M.tname(V)}|{cname(c1)}|{join}|{cname(c2)}|{'+' if pol else '-'}|{ok}",
                                        {"V": V, "cond": c1, "cond2": c2, "join": join, "pol": pol, "okind": ok, "okind2": "int"},
                                        timeout=240, twin=False))
    return out
