"""C06 - call checking: arguments against parameter types, result type.

H06a: signatures over stub atoms under a symbolic preorder (plain, defaulted - including a default
      that does not fit its annotation -, generic in T): diagnosed <=> some explicitly passed
      argument is not accepted by the (substituted) parameter type; the result type is the declared
      one / accepts the argument that an identity-shaped function returns.
H06b: parameters typed with real constructors (Literal[k], Annotated[int, Gt(a)], int, Optional[int],
      list[int], tuple[int, str]) and literal arguments with symbolic payloads: diagnosed <=> the
      argument is not a member of the declared type (membership model of vf/member.py).
"""

from __future__ import annotations

import itertools
from typing import List

from pyanalyze.signature import ParameterKind, Signature, SigParameter, _CanAssignBasedContext, preprocess_args
from pyanalyze.stacked_scopes import Composite
from pyanalyze.value import AnyValue, GenericValue, KnownValue, MultiValuedValue

from vf import callcheck as CC
from vf import member as M
from vf.common import Atom, Rel, get_checker, install_coarse_hash, ref_accepts
from vf.engine import Case
from vf.g import G, excluded, fin, skip

ID = "C06"
FUNCTIONS_ENCODED = [
    "pyanalyze.signature.Signature.check_call_preprocessed / check_call_with_bound_args / _check_param_type_compatibility / get_default_return / bind_arguments",
    "pyanalyze.signature.preprocess_args", "pyanalyze.typevar.resolve_bounds_map / solve", "pyanalyze.value.TypeVarValue.can_assign / can_be_assigned / substitute_typevars",
    "pyanalyze.value.can_assign_and_used_any", "H06b: the can_assign methods of KnownValue / TypedValue / AnnotatedValue / MultiValuedValue / GenericValue / SequenceValue",
]
BOUNDS = {
    "quick": {"H06a": "1-2 parameters, annotations atom / union / T / list[T] (T plain, bounded, constrained), defaults fitting or not fitting, arguments atom / union / Any / the literal None / omitted; every preorder on 3 atoms",
              "H06b": "1-2 parameters from 8 real parameter types, literal arguments of 6 kinds with unbounded int payloads",
              "H06c": "signatures with <= 2 parameters over all kinds (positional-only, positional-or-keyword, keyword-only, typed *args, typed **kwargs), defaults, names a / b; calls with 0..2 positionals and <= 2 keywords from {a, b, args, kwargs}; every preorder on 3 atoms (rotating sample; name-collision shapes always)"},
    "thorough": {"H06a": "up to 3 parameters", "H06b": "same"},
}
OUTSIDE = ["methods / classmethods / constructors / dataclasses (signature construction needs runtime objects and the visitor)", "impl functions, allow_call evaluation",
           "the rendering of the message"]
STUBS = ["stub atoms with a symbolic preorder", "_CanAssignBasedContext with the real Checker", "coarse-hash stub (H06b)"]
ASSUMPTIONS = ["H06c: where an argument lands is read off a real call of a generated def with the same header", "reference acceptance over the relation (vf/common.ref_accepts) and membership model vf/member.py"]

NONE = KnownValue(None)


def prepare(template, data):
    get_checker()
    install_coarse_hash()
    saved = G.case
    G.case = data
    try:
        if template == "h06_atoms":
            h06_atoms(False, False, False, False, False, False)
            h06_atoms(True, True, True, True, True, True)
        elif template == "h06_dup":
            h06_dup(False, False, False, False, False, False)
        elif template == "h06_kinds":
            global _KFN
            from vf.props.c07 import _fn

            _KFN = _fn(data["spec"], "return dict(locals())")
            h06_kinds(False, False, False, False, False, False)
            h06_kinds(True, True, True, True, True, True)
        else:
            h06_real(0, 1, 2, 0, 1, "a")
    finally:
        G.case = saved


def _subst(ann, S, atoms):
    """reference parameter type after substituting T := S"""
    k = ann[0]
    if k == "atom":
        return atoms[ann[1]]
    if k == "union":
        return MultiValuedValue([atoms[ann[1]], atoms[ann[2]]])
    return S  # T and list[T]: compared element-wise below


def h06_atoms(b0: bool, b1: bool, b2: bool, b3: bool, b4: bool, b5: bool) -> bool:
    """
    post: _
    """
    if excluded(b0=b0, b1=b1, b2=b2, b3=b3, b4=b4, b5=b5):
        return skip()
    data = G.case
    rel = Rel(3, (b0, b1, b2, b3, b4, b5))
    atoms = [Atom(i, rel) for i in range(3)]
    tvspec = tuple(data["tv"])
    params = []
    for i, (ann, dflt) in enumerate(data["params"]):
        d = None
        if dflt == "fit":
            d = CC.arg_value(("T",), ann[1] if ann[0] in ("atom", "union") else 0, atoms)
        elif dflt == "fit2":
            d = CC.arg_value(("T",), 2, atoms)  # a default of atom 2 for a T-typed parameter
        elif dflt == "none":
            d = KnownValue(None)  # a default that does not belong to the annotation
        params.append((f"p{i}", tuple(ann), d))
    args = [tuple(a) if isinstance(a, list) else a for a in data["args"]]
    ret_ann = tuple(data["ret"]) if data["ret"] is not None else None
    diagnosed, ret, errors = CC.run_call(params, ret_ann, tvspec, args, atoms)
    generic = any(p[1][0] in ("T", "boxT") for p in params)
    if not generic:
        want = False
        for (nm, ann, d), a in zip(params, args):
            if a == "omit":
                if d is None:
                    want = True  # missing required argument: the call does not bind
                continue
            if a == "any":
                continue
            if a == "dflt":
                if d is None:
                    return skip()
                if d == KnownValue(None) or not ref_accepts(rel, _subst(ann, None, atoms), d):
                    want = True
                continue
            av = KnownValue(None) if a == "none" else CC.arg_value(("T",), a, atoms)
            if a == "none" or not ref_accepts(rel, _subst(ann, None, atoms), av):
                want = True
        if diagnosed != want:
            return fin(False)
        if not diagnosed and ret_ann is not None and ret_ann[0] == "atom":
            return fin(ret == atoms[ret_ann[1]])
        return fin(True)
    # generic: either an error is reported or the solution makes every argument acceptable
    if diagnosed:
        return fin(True, nontrivial=False)
    if ret_ann is None or ret_ann[0] not in ("T", "boxT"):
        return fin(True, nontrivial=False)
    S = ret if ret_ann[0] == "T" else (ret.args[0] if isinstance(ret, GenericValue) else None)
    if S is None:
        return fin(False)
    if isinstance(S, AnyValue):
        return fin(True, nontrivial=False)
    for (nm, ann, d), a in zip(params, args):
        if a == "any":
            continue
        if a == "omit":
            # the default is what the parameter receives: the solution must make it acceptable too
            # (a function `return y` hands it back, so the inferred result has to contain it)
            if d is None or ann[0] != "T":
                continue
            if not ref_accepts(rel, S, d):
                return fin(False)
            continue
        if a == "none":
            return fin(False)  # None is not an atom: an accepted call cannot have passed it to an atom/T of atoms
        av = CC.arg_value(("T",), a, atoms)
        pt = _subst(ann, S, atoms)
        if not ref_accepts(rel, pt, av):
            return fin(False)
    if tvspec[0] == "bound" and not ref_accepts(rel, atoms[tvspec[1]], S):
        return fin(False)
    if tvspec[0] == "constr" and not (S == atoms[tvspec[1]] or S == atoms[tvspec[2]]):
        return fin(False)
    return fin(True)


# ----------------------------------------------------------------------------------------
# H06c: every parameter kind, typed *args / **kwargs, keywords whose names collide with positional-only or
# variadic parameters.  Where an argument lands is decided by CPython itself (a generated def with the same
# header is really called with marker objects and returns its locals()).
# ----------------------------------------------------------------------------------------

_KFN = None
KW_NAMES = ["a", "b", "args", "kwargs"]


def _owner(locs, spec, marker):
    for i, (nm, k, d) in enumerate(spec):
        v = locs.get(nm)
        if k == 2:
            if isinstance(v, tuple) and marker in v:
                return i
        elif k == 4:
            if isinstance(v, dict) and marker in v.values():
                return i
        elif v is not None and type(v) is int and v == marker:
            return i
    return None


def h06_kinds(b0: bool, b1: bool, b2: bool, b3: bool, b4: bool, b5: bool) -> bool:
    """
    post: _
    """
    if excluded(b0=b0, b1=b1, b2=b2, b3=b3, b4=b4, b5=b5):
        return skip()
    data = G.case
    rel = Rel(3, (b0, b1, b2, b3, b4, b5))
    atoms = [Atom(i, rel) for i in range(3)]
    spec = data["spec"]
    npos, kws, shift = data["npos"], data["kws"], data["shift"]
    K = ParameterKind
    from pyanalyze.value import TypedValue

    sp = []
    for i, (nm, k, d) in enumerate(spec):
        ann = atoms[i % 3]
        if k == 2:
            ann = GenericValue(tuple, [ann])
        elif k == 4:
            ann = GenericValue(dict, [TypedValue(str), ann])
        # a default that fits the annotation (the property is about passed arguments)
        sp.append(SigParameter(nm, K(k), annotation=ann, default=atoms[i % 3] if d else None))
    sig = Signature.make(sp, atoms[2])
    pos_atoms = [(j + shift) % 3 for j in range(npos)]
    kw_atoms = [(KW_NAMES.index(nm) + 1 + shift) % 3 for nm in kws]
    call_args = [(Composite(atoms[a]), None) for a in pos_atoms] + [(Composite(atoms[a]), nm) for nm, a in zip(kws, kw_atoms)]
    ctx = _CanAssignBasedContext(get_checker())
    actual = preprocess_args(call_args, ctx)
    if actual is None:
        return fin(False)
    ret = sig.check_call_preprocessed(actual, ctx)
    diagnosed = bool(ctx.errors) or ret.is_error
    # reference: CPython's binding of the same shape, then one membership test per argument
    try:
        locs = _KFN(*range(npos), **{nm: 100 + j for j, nm in enumerate(kws)})
    except TypeError:
        return fin(diagnosed)
    want = False
    for marker, a in list(zip(range(npos), pos_atoms)) + [(100 + j, a) for j, a in enumerate(kw_atoms)]:
        i = _owner(locs, spec, marker)
        if i is None:
            return fin(False)
        if not rel.accepts(i % 3, a):
            want = True
    if diagnosed != want:
        return fin(False)
    if not diagnosed:
        return fin(ret.return_value == atoms[2])
    return fin(True)


def h06_dup(b0: bool, b1: bool, b2: bool, b3: bool, b4: bool, b5: bool) -> bool:
    """
    post: _
    """
    # f(**{"a": X, "a": Y}) (also what {**defaults, "a": Y} becomes): the parameter receives the LAST entry
    if excluded(b0=b0, b1=b1, b2=b2, b3=b3, b4=b4, b5=b5):
        return skip()
    from pyanalyze.signature import KWARGS
    from pyanalyze.value import DictIncompleteValue, KVPair

    data = G.case
    rel = Rel(3, (b0, b1, b2, b3, b4, b5))
    atoms = [Atom(i, rel) for i in range(3)]
    i, j = data["first"], data["last"]
    sig = Signature.make([SigParameter("a", ParameterKind.POSITIONAL_OR_KEYWORD if data["kind"] == 1 else ParameterKind.KEYWORD_ONLY,
                                       annotation=atoms[0])], atoms[2])
    d = DictIncompleteValue(dict, [KVPair(KnownValue("a"), atoms[i]), KVPair(KnownValue("a"), atoms[j])])
    ctx = _CanAssignBasedContext(get_checker())
    actual = preprocess_args([(Composite(d), KWARGS)], ctx)
    if actual is None:
        return fin(False)
    ret = sig.check_call_preprocessed(actual, ctx)
    diagnosed = bool(ctx.errors) or ret.is_error
    return fin(diagnosed == (not rel.accepts(0, j)))


def _kinds_cases(tier: str, seed: int) -> List[Case]:
    import zlib

    from vf.props.c07 import _slabel, _specs

    out = []
    quick = tier == "quick"
    for spec in _specs(2, ("a", "b")):
        if not spec:
            continue
        names = [nm for nm, k, d in spec]
        for npos in (0, 1, 2):
            for r in (0, 1, 2):
                for kws in itertools.combinations(KW_NAMES, r):
                    for shift in (0, 1, 2):
                        lab = f"k:{_slabel(spec)}<-{npos}{''.join(',' + k + '=' for k in kws)}|s{shift}"
                        # a keyword named like a positional-only or variadic parameter of the signature is routed
                        # into **kwargs by CPython: always included when the signature can take it
                        collide = any(nm in kws and k in (0, 2, 4) for nm, k, d in spec) and any(k == 4 for _, k, _ in spec)
                        if collide and shift != 1 and quick:
                            continue
                        if not collide and (zlib.crc32(lab.encode()) + seed) % (40 if quick else 4) != 0:
                            continue
                        out.append(Case("h06_kinds", lab, {"spec": spec, "npos": npos, "kws": list(kws), "shift": shift},
                                        timeout=60 if quick else 180, twin=True, vacuous_ok=True))
    return out


REAL_TYPES = [("int",), ("lit", M.P0), ("gt", M.P0), ("union", ("int",), ("none",)), ("str",), ("list", ("int",)),
              ("tuple", ("int",), ("str",)), ("union", ("lit", M.P0), ("lit", M.P1)), ("float",), ("bool",)]
REAL_ARGS = ["int", "bool", "str", "none", "list1", "tuple_is"]


def h06_real(p0: int, p1: int, oi: int, oj: int, oi2: int, s: str) -> bool:
    """
    post: _
    """
    if excluded(p0=p0, p1=p1, oi=oi, oj=oj, oi2=oi2, s=s):
        return skip()
    data = G.case
    if len(s) > 2:
        return skip()
    types = [M.instantiate(t, (p0, p1), (True, False)) for t in data["types"]]
    objs = [M.make_object(k, oi if i == 0 else oi2, oj, s) for i, k in enumerate(data["okinds"])]
    sp = [SigParameter(f"p{i}", ParameterKind.POSITIONAL_OR_KEYWORD, annotation=M.to_value(t)) for i, t in enumerate(types)]
    sig = Signature.make(sp, M.to_value(types[0]))
    ctx = _CanAssignBasedContext(get_checker())
    call_args = [(Composite(KnownValue(o)), None) for o in objs]
    actual = preprocess_args(call_args, ctx)
    if actual is None:
        return fin(False)
    ret = sig.check_call_preprocessed(actual, ctx)
    diagnosed = bool(ctx.errors) or ret.is_error
    want = False
    for o, t in zip(objs, types):
        if not M.member(o, t):
            want = True
    return fin(diagnosed == want)


def _lab(params, tv, args, ret):
    def one(p):
        ann, d = p
        return ":".join(map(str, ann)) + {"fit": "=", "fit2": "=a2", "none": "=None", None: ""}[d]
    return ",".join(one(p) for p in params) + "|" + ":".join(map(str, tv)) + "|" + ",".join(str(a) for a in args) + "->" + (":".join(map(str, ret)) if ret else "-")


def cases(tier: str, seed: int) -> List[Case]:
    out: List[Case] = []
    quick = tier == "quick"
    anns = [("atom", 0), ("atom", 1), ("union", 0, 1)]
    gens = [("T",), ("boxT",)]
    argopts = [0, 1, 2, ["u", 0, 2], "any", "none"]
    idx = 0
    # non-generic, 1-2 parameters
    for n in (1, 2):
        for pa in itertools.product(anns, repeat=n):
            for dflts in itertools.product([None, "fit", "none"], repeat=n):
                if n == 2 and dflts[0] is not None and dflts[1] is None:
                    continue  # non-default after default
                for args in itertools.product(argopts + ["omit"], repeat=n):
                    idx += 1
                    if n == 2 and (idx + seed) % (40 if quick else 6) != 0:
                        continue
                    params = [[list(a), d] for a, d in zip(pa, dflts)]
                    ret = ["atom", 2]
                    out.append(Case("h06_atoms", "a:" + _lab([(a, d) for a, d in zip(pa, dflts)], ("plain",), args, ret),
                                    {"params": params, "tv": ["plain"], "args": [list(a) if isinstance(a, list) else a for a in args], "ret": ret},
                                    timeout=60 if quick else 180, twin=(idx % 9 == 0), vacuous_ok=True))
    # the explicit argument is the same Value object as the default
    for ann in anns:
        for dflt in ("fit", "none"):
            params = [[list(ann), dflt]]
            out.append(Case("h06_atoms", "a:" + _lab([(ann, dflt)], ("plain",), ("dflt",), ["atom", 2]) ,
                            {"params": params, "tv": ["plain"], "args": ["dflt"], "ret": ["atom", 2]}, timeout=60, twin=True, vacuous_ok=True))
    # generic
    tvs = [("plain",), ("bound", 0), ("constr", 0, 1)]
    for n in (1, 2) if quick else (1, 2, 3):
        for pa in itertools.product(gens + anns[:1], repeat=n):
            if not any(a[0] in ("T", "boxT") for a in pa):
                continue
            for tv in tvs:
                for args in itertools.product([0, 1, 2, ["u", 0, 1], "any"], repeat=n):
                    for ret in (("T",), ("boxT",)):
                        idx += 1
                        if n >= 2 and (idx + seed) % (12 if quick else 4) != 0:
                            continue
                        if n == 3 and (idx + seed) % 5 != 0:
                            continue
                        params = [[list(a), None] for a in pa]
                        out.append(Case("h06_atoms", "g:" + _lab([(a, None) for a in pa], tv, args, ret),
                                        {"params": params, "tv": list(tv), "args": [list(a) if isinstance(a, list) else a for a in args], "ret": list(ret)},
                                        timeout=90 if quick else 240, twin=(idx % 9 == 0), vacuous_ok=True))
    # the same type variable on a passed parameter and on an omitted defaulted one
    for first in (("T",), ("boxT",)):
        for a0 in (0, 1, ["u", 0, 1]):
            for ret in (("T",), ("boxT",)):
                pa = (first, ("T",))
                dl = "g:" + _lab([(pa[0], None), (pa[1], "fit2")], ("plain",), (a0, "omit"), ret)
                out.append(Case("h06_atoms", dl, {"params": [[list(pa[0]), None], [list(pa[1]), "fit2"]], "tv": ["plain"],
                                                  "args": [a0, "omit"], "ret": list(ret)},
                                timeout=90 if quick else 240, twin=True, vacuous_ok=True))
    out += _kinds_cases(tier, seed)
    for kind in (1, 3):
        for i in range(3):
            for j in range(3):
                out.append(Case("h06_dup", f"dup:{'a' if kind == 1 else '!a'}<-**{{a:{i},a:{j}}}", {"kind": kind, "first": i, "last": j}, timeout=60, twin=True))
    # real constructors
    for t in REAL_TYPES:
        for k in REAL_ARGS:
            out.append(Case("h06_real", f"r:{M.tname(t)}|{k}", {"types": [t], "okinds": [k]}, timeout=60, twin=False))
    for t1, t2 in itertools.product(REAL_TYPES[:5], repeat=2):
        for k1, k2 in itertools.product(REAL_ARGS[:4], repeat=2):
            idx += 1
            if (idx + seed) % (9 if quick else 2) != 0:
                continue
            out.append(Case("h06_real", f"r:{M.tname(t1)},{M.tname(t2)}|{k1},{k2}", {"types": [t1, t2], "okinds": [k1, k2]}, timeout=60, twin=False))
    return out
