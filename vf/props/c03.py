"""C03 - assignability of a concrete value equals runtime membership (runtime API half).

`to_value(T).can_assign(KnownValue(o))` - what `pyanalyze.runtime.is_assignable(o, T)` evaluates
after `type_from_runtime(T)` - against the structural membership model of vf/member.py, for every
payload / threshold / flag value.  E3 checks at the start of every run that the hand-built Values
equal `type_from_runtime` of the typing spelling (translation validation of the vocabulary) and
that `runtime.is_assignable` agrees with the direct call on concrete samples.
"""

from __future__ import annotations

import time
from typing import Any, Dict, List

from pyanalyze.value import CanAssignError, KnownValue

from vf import member as M
from vf.common import get_checker, install_coarse_hash
from vf.engine import Case
from vf.g import G, excluded, fin, skip

ID = "C03"
FUNCTIONS_ENCODED = [
    "pyanalyze.value.KnownValue.can_assign", "pyanalyze.value.TypedValue.can_assign", "pyanalyze.value.GenericValue.can_assign",
    "pyanalyze.value.SequenceValue.can_assign", "pyanalyze.value.TypedDictValue.can_assign", "pyanalyze.value.MultiValuedValue.can_assign",
    "pyanalyze.value.AnnotatedValue.can_assign", "pyanalyze.value.SubclassValue.can_assign", "pyanalyze.type_object.TypeObject.can_assign",
    "pyanalyze.value.replace_known_sequence_value", "pyanalyze.annotated_types.AnnotatedTypesCheck.can_assign and the Gt/Ge/Lt/Le/MultipleOf/MinLen/MaxLen checks",
    "pyanalyze.runtime.is_assignable / annotations.type_from_runtime (E3 only, concrete)",
]
BOUNDS = {
    "quick": {"types": "depth <= 1 vocabulary of vf/member.py (about 100 type expressions) x all 22 object kinds",
              "objects": "21 kinds: int (unbounded), bool, str (<= 2 chars), None, float 1.5, tuples/lists of <= 2 ints, dicts with keys a/b, enum member, instances of A / B(A), classes",
              "payloads": "Literal constants and Annotated thresholds unbounded ints, TypedDict required flag symbolic"},
    "thorough": {"types": "all depth-1 pairs and a half of the depth-2 compositions", "objects": "same", "payloads": "same"},
}
OUTSIDE = ["the second half of the statement (`x: T = <literal>` diagnosed by the checker): needs the visitor",
           "NewType (run-time membership is not defined for it), floats as symbolic data (CrossHair models them as reals), TypedDict objects with extra keys"]
STUBS = ["coarse-hash stub for KnownValue / annotated_types checks (eq-consistent)"]
ASSUMPTIONS = ["membership model vf/member.py", "to_value() builds the Value type_from_runtime would build: checked by E3 on concrete payloads at every run"]


def prepare(template, data):
    get_checker()
    install_coarse_hash()
    M.warm(data)


def h03(p0: int, p1: int, f0: bool, f1: bool, oi: int, oj: int, s: str) -> bool:
    """
    post: _
    """
    data = G.case
    kind = data["okind"]
    if kind in ("str", "tuple_is") and len(s) > 2:
        return skip()
    t = M.instantiate(data["T"], (p0, p1), (f0, f1))
    o = M.make_object(kind, oi, oj, s)
    v = M.to_value(t)
    got = not isinstance(v.can_assign(KnownValue(o), get_checker()), CanAssignError)
    want = M.member(o, t)
    if excluded(tkind=t[0], want=want, got=got, p0=p0, oi=oi, oj=oj, s=s):
        return skip()
    return fin(got == want)


def pre_run(tier: str, seed: int) -> Dict[str, Any]:
    """E3: translation validation of the vocabulary and of the runtime API route (concrete)."""
    from pyanalyze import runtime
    from pyanalyze.annotations import type_from_runtime

    t0 = time.time()
    ctx = get_checker()
    bad = []
    n = 0
    types = M.depth1(M.LEAVES, M.P0, M.F0)
    for t in types:
        for (p, f) in ((3, True), (0, False)):
            ti = M.instantiate(t, (p, p), (f, f))
            try:
                ty = M.to_typing(ti)
                rv = type_from_runtime(ty)
            except Exception as e:  # noqa
                bad.append((M.tname(t), f"type_from_runtime raised {type(e).__name__}: {e}"))
                continue
            hv = M.to_value(ti)
            n += 1
            if not _same(rv, hv):
                bad.append((M.tname(t), str(rv), str(hv)))
                continue
            for kind in M.OBJECT_KINDS:
                o = M.make_object(kind, p, 1, "a")
                a = runtime.is_assignable(o, ty)
                b = not isinstance(hv.can_assign(KnownValue(o), ctx), CanAssignError)
                n += 1
                if a != b:
                    bad.append((M.tname(t), kind, "runtime.is_assignable", a, "direct", b))
    extra = {"e3": {"vocabulary_vs_type_from_runtime": {"compared": n, "disagreements": bad[:10]}}, "e3_validated": n,
             "wall_s": time.time() - t0, "harness_errors": []}
    if bad:
        extra["harness_errors"].append(f"E3: hand-built Values differ from type_from_runtime / runtime.is_assignable: {bad[:5]}")
    print(f"  E3: {n} comparisons of the vocabulary against type_from_runtime / runtime.is_assignable, {len(bad)} disagreements")
    return extra


def _same(a, b) -> bool:
    if a == b:
        return True
    return str(a) == str(b)


def cases(tier: str, seed: int) -> List[Case]:
    return M.c03_cases(tier, seed)
