"""C16 - automatic fixes are safe (kernel claim: change application and the add-ignores iteration).

H16a: `BaseNodeVisitor._apply_changes_to_lines` with symbolic deleted line numbers / number of
      added lines against the documented meaning of a Replacement.
H16b: a stub visitor emits, for each tagged site line, the codes a *symbolic table* assigns to it;
      the real `show_error(add_ignores=True)` proposes the replacement, the real
      `check_for_test(apply_changes=True)` / `_apply_changes_to_lines` applies the first one; the
      harness re-runs until no failure or 2*|errors|+2 iterations.
"""

from __future__ import annotations

import ast
import enum
import types
from typing import List

from pyanalyze import node_visitor
from pyanalyze.node_visitor import IGNORE_COMMENT, BaseNodeVisitor, Replacement, ReplacingNodeVisitor, _FakeNode

from vf.engine import Case
from vf.g import G, excluded, fin, skip

ID = "C16"
FUNCTIONS_ENCODED = [
    "pyanalyze.node_visitor.BaseNodeVisitor._apply_changes_to_lines",
    "pyanalyze.node_visitor.BaseNodeVisitor.show_error (replacement construction for add_ignores, lines 687-705)",
    "pyanalyze.node_visitor.BaseNodeVisitor.check_for_test(apply_changes=True)",
    "pyanalyze.analysis_lib.get_indentation",
    "pyanalyze.analysis_lib.get_line_range_for_node (H16c: line range used by replace_node / remove_node vs the parser's lineno..end_lineno)",
    "the ignore logic of show_error / has_file_level_ignore for the re-check (shared with C11)",
]
BOUNDS = {
    "quick": {"H16a": "files of <= 5 marker lines, symbolic deleted subset, 0..2 added lines",
              "H16b": "7 file layouts (first line, indented, after a comment/blank line, inside a parenthesised "
                      "multi-line statement, inside a triple-quoted string), 2 sites x 2 codes symbolic table"},
    "thorough": {"H16a": "files of <= 6 marker lines", "H16b": "same layouts, 3 sites x 2 codes"},
}
OUTSIDE = [
    "the fix producers in the visitor (replace_node via ast_decompiler, unused-variable removal, missing_f, use_fstrings, "
    "too-many-positional-args) and 'only the intended semantic change' for them: they need the visitor and a parser on symbolic text",
    "get_line_range_for_node beyond the 7 statement shapes of H16c (there the inputs are small selectors: the solver only enumerates them)",
]
STUBS = ["stub visitor whose visit() emits the diagnostics of a symbolic table at tagged lines", "sys.stderr sink"]
ASSUMPTIONS = []


class EC(enum.Enum):
    aa = 1
    bb = 2


class _Sink:
    def write(self, s):
        return None

    def flush(self):
        return None


def prepare(template, data):
    shim = types.SimpleNamespace(**{k: getattr(node_visitor.sys, k) for k in ("version_info", "argv", "modules", "path")})
    shim.stderr = _Sink()
    shim.stdout = _Sink()
    node_visitor.sys = shim


# ------------------------------------------------------------------------------ H16a


def h16_apply(d0: bool, d1: bool, d2: bool, d3: bool, d4: bool, d5: bool, nadd: int) -> bool:
    """
    post: _
    """
    n = G.case["n"]
    ds = (d0, d1, d2, d3, d4, d5)[:n]
    lines = [f"L{i}\n" for i in range(n)]
    linenos = []
    for i in range(n):
        if ds[i]:
            linenos.append(i + 1)
    if not linenos:
        return skip()
    adds = []
    for k in range(2):
        if k < nadd:
            adds.append(f"A{k}\n")
    if G.case["order"] == "desc":
        linenos = list(reversed(linenos))
    got = BaseNodeVisitor._apply_changes_to_lines([Replacement(linenos, adds)], lines)
    # documented meaning: delete the listed lines, add the new lines right after the last deleted
    # line; everything else stays, in order
    last = max(linenos)
    want = []
    for i in range(n):
        ln = i + 1
        if ln not in linenos:
            want.append(lines[i])
        if ln == last:
            want.extend(adds)
    ok = list(got) == want
    # a change without lines_to_add (show-only) leaves the file alone
    same = list(BaseNodeVisitor._apply_changes_to_lines([Replacement(linenos, None)], lines)) == lines
    # only the first change of a list is applied
    first_only = list(BaseNodeVisitor._apply_changes_to_lines(
        [Replacement(linenos, adds), Replacement([1], ["Z\n"])], lines)) == want
    return fin(ok and same and first_only and lines == [f"L{i}\n" for i in range(n)])


# ------------------------------------------------------------------------------ H16b


class V(BaseNodeVisitor):
    error_code_enum = EC
    table = None

    def visit(self, node):
        for i, line in enumerate(self._lines()):
            for tag in range(3):
                if f"S{tag}" in line and IGNORE_COMMENT not in line:
                    a, b = self.table[tag]
                    if a:
                        self.show_error(_FakeNode(i + 1, 0), "ea", error_code=EC.aa)
                    if b:
                        self.show_error(_FakeNode(i + 1, 0), "eb", error_code=EC.bb)


LAYOUTS = {
    # name: source lines; S0/S1/S2 mark the lines diagnostics are attached to
    "mid": ["x = 0", "S0 = 1", "    S1 = 2", "S2 = 3"],
    "first": ["S0 = 1", "S1 = 2", "S2 = 3"],
    "aftercomment": ["# leading comment", "S0 = 1", "", "S1 = 2", "S2 = 3"],
    # a blank line ends the leading comment block: a comment added below it is an ordinary own-line ignore
    "afterblank": ["# leading comment", "", "S0 = 1", "S1 = 2", "S2 = 3"],
    "blankfirst": ["", "S0 = 1", "S1 = 2", "S2 = 3"],
    "twoblocks": ["# leading comment", "", "# second block", "S0 = 1", "S1 = 2", "S2 = 3"],
    "last": ["x = 0", "S0 = 1", "S2 = 3", "S1 = 2"],
    "indented": ["if x:", "    S0 = 1", "    if y:", "        S1 = 2", "S2 = 3"],
    "paren": ["x = (", "    S0 +", "    S1)", "S2 = 3"],
    "string": ["x = f'''", "{S0}", "'''", "S1 = 2", "S2 = 3"],
}


def _run_once(contents, table):
    v = V("f.py", contents, None, settings=None, add_ignores=True)
    v.table = table
    failures, new = v.check_for_test(apply_changes=True)
    return failures, new


def _reported(contents, table):
    v = V("f.py", contents, None, settings=None)
    v.table = table
    out = set()
    for f in v.check():
        line = contents.splitlines()[f["lineno"] - 1]
        for tag in range(3):
            if f"S{tag}" in line:
                out.add((tag, f["code"]))
    return out


def _ast_or_none(src):
    try:
        return ast.dump(ast.parse(src))
    except SyntaxError:
        return None


def h16_addign(a0: bool, b0: bool, a1: bool, b1: bool, a2: bool, b2: bool) -> bool:
    """
    post: _
    """
    if excluded(a0=a0, b0=b0, a1=a1, b1=b1, a2=a2, b2=b2):
        return skip()
    data = G.case
    nsites = data["sites"]
    src = LAYOUTS[data["layout"]]
    table = {0: (a0, b0), 1: (a1, b1), 2: (a2, b2)}
    for t in range(nsites, 3):
        table[t] = (False, False)
    original = set()
    for t in range(3):
        if table[t][0]:
            original.add((t, EC.aa))
        if table[t][1]:
            original.add((t, EC.bb))
    n_err = len(original)
    if n_err == 0:
        return skip()
    contents = "\n".join(src) + "\n"
    before_ast = _ast_or_none(contents)
    converged = False
    for it in range(2 * n_err + 2):
        failures, contents = _run_once(contents, table)
        if not failures:
            converged = True
            break
    if not converged:
        return fin(False)
    final_lines = contents.splitlines()
    # 1. the statements are unchanged and in order; only ignore comments were added
    kept = [l for l in final_lines if IGNORE_COMMENT not in l]
    if kept != src:
        return fin(False)
    # 2. the syntax tree is unchanged (when the original parses)
    if before_ast is not None and _ast_or_none(contents) != before_ast:
        return fin(False)
    # 3. every added comment suppresses only the diagnostic it was added for: with every code
    #    reported at every site, exactly the original diagnostics are silenced
    full = {0: (True, True), 1: (True, True), 2: (True, True)}
    everything = set((t, c) for t in range(3) for c in (EC.aa, EC.bb))
    still = _reported(contents, full)
    if still != everything - original:
        return fin(False)
    return fin(True)


# ------------------------------------------------------------------------------ H16c

from pyanalyze import analysis_lib

SHAPES = {
    # statement templates; {I} = indentation of the statement, {T} = text after the closing bracket
    "call": (["{I}x = foo(", "{I}    1,", "{I}){T}"], ["", "  # c", " + 1", ".bar", "[0]"]),
    "nested": (["{I}x = foo(bar(", "{I}    1,", "{I})){T}"], ["", "  # c", ".baz"]),
    "list": (["{I}x = [", "{I}    1,", "{I}]{T}"], ["", " + [2]", "  # c"]),
    "dict": (["{I}x = {{", "{I}    1: 2,", "{I}}}{T}"], ["", "  # c"]),
    "hang": (["{I}x = foo(1,", "{I}        2){T}"], ["", " + 1"]),
    "tstr": (['{I}x = \'\'\'', "text", "{I}\'\'\'{T}"], ["", ".strip()", " + 'x'"]),
    # continuation lines that are not indented deeper than the statement and do not start with a closing bracket
    "bslash": (["{I}x = a + \\", "{I}b{T}"], ["", ".pop()"]),
    "samecol": (["{I}x = (1 +", "{I}2){T}"], ["", " + 3"]),
    "tstr2": (['{I}x = foo(\'\'\'', "text", "\'\'\', 1){T}"], ["", ".bar"]),
    "single": (["{I}x = 1{T}"], ["", "  # c"]),
    # a decorated definition: the statement starts at its first decorator (the parser's lineno is the def line)
    "deco": (["{I}@dec(1){T}", "{I}def x():", "{I}    return 1"], ["", "  # c"]),
    "deco2": (["{I}@dec", "{I}@other(", "{I}    2)", "{I}class x:{T}", "{I}    y = 1"], ["", "  # c"]),
}


def h16_range(ind: int, tsel: int, before: int, after: bool) -> bool:
    """
    post: _
    """
    # All inputs are small selectors (the solver enumerates them); the text is concrete per path.
    if excluded(ind=ind, tsel=tsel, before=before, after=after):
        return skip()
    tmpl, tails = SHAPES[G.case["shape"]]
    I = ""
    header = []
    for k in range(1, 3):
        if ind == k:
            I = "    " * k
            header = ["if a:"] if k == 1 else ["if a:", "    if b:"]
    if ind < 0 or ind > 2:
        return skip()
    T = tails[0]
    for i in range(1, len(tails)):
        if tsel == i:
            T = tails[i]
    if tsel < 0 or tsel >= len(tails):
        return skip()
    pre = []
    for k in range(2):
        if k < before:
            pre.append(I + "z = 0")
    if before < 0 or before > 2:
        return skip()
    stmt_lines = [l.format(I=I, T=T) for l in tmpl]
    post = [I + "y = 2"] if after else []
    lines = header + pre + stmt_lines + post
    src = "\n".join(lines) + "\n"
    tree = ast.parse(src)
    target = None
    for node in ast.walk(tree):
        if isinstance(node, ast.Assign) and isinstance(node.targets[0], ast.Name) and node.targets[0].id == "x":
            target = node
        if isinstance(node, (ast.FunctionDef, ast.ClassDef)) and node.name == "x":
            target = node
    got = analysis_lib.get_line_range_for_node(target, [l + "\n" for l in lines])
    first = min([target.lineno] + [d.lineno for d in getattr(target, "decorator_list", [])])
    want = list(range(first, target.end_lineno + 1))
    return fin(got == want)


# ------------------------------------------------------------------------------ H16d
# The generic fix producers BaseNodeVisitor.replace_node / remove_node: the statement `x = <v>` is replaced by
# `x = 9` (or removed) inside small programs where it shares its physical line(s) with other code.  Either no fix is
# offered, or the fixed file is exactly the original program with only that statement changed.

PROGRAMS = {
    # {X} is the target statement
    "alone": ["a = 0", "{X}", "b = 2"],
    "after_colon": ["if a: {X}", "b = 2"],
    "semi_first": ["{X}; b = 2", "c = 3"],
    "semi_last": ["b = 2; {X}", "c = 3"],
    "semi_mid": ["b = 2; {X}; c = 3"],
    "comment": ["a = 0", "{X}  # note", "b = 2"],
    "else_colon": ["if a:", "    b = 1", "else: {X}", "c = 3"],
    "indented": ["if a:", "    {X}", "    b = 2"],
}


class RV(ReplacingNodeVisitor):
    error_code_enum = EC


def h16_replace(vsel: int, remove: bool) -> bool:
    """
    post: _
    """
    # small selectors only (the solver enumerates them); the text is concrete per path
    if excluded(vsel=vsel, remove=remove):
        return skip()
    vals = ["1", "(1 +", "f(1)"]
    v = vals[0]
    for i in range(1, len(vals)):
        if vsel == i:
            v = vals[i]
    if vsel < 0 or vsel >= len(vals):
        return skip()
    X = "x = " + v
    if v == "(1 +":
        X = "x = (1 + 2)"
    src_lines = [l.format(X=X) for l in PROGRAMS[G.case["prog"]]]
    src = "\n".join(src_lines) + "\n"
    tree = ast.parse(src)
    target = None
    for node in ast.walk(tree):
        if isinstance(node, ast.Assign) and isinstance(node.targets[0], ast.Name) and node.targets[0].id == "x":
            target = node
    vis = RV("f.py", src, tree, settings=None)
    if remove:
        rep = vis.remove_node(target.value, target)
    else:
        rep = vis.replace_node(target.value, ast.Constant(value=9), target)
    if rep is None:
        return fin(True, nontrivial=False)  # no fix offered
    lines = vis._apply_changes_to_lines([rep], [l + "\n" for l in src_lines])
    try:
        got = ast.dump(ast.parse("".join(lines)))
    except SyntaxError:
        return fin(False)
    want_src = "\n".join(l.format(X=("pass" if remove else "x = 9")) for l in PROGRAMS[G.case["prog"]]) + "\n"
    want = ast.dump(ast.parse(want_src))
    if remove:
        # removing the only statement of a line leaves the line out: compare modulo `pass`
        want_alt = ast.dump(ast.parse("\n".join(l for l in (l.format(X="") for l in PROGRAMS[G.case["prog"]]) if l.strip()) + "\n")) \
            if G.case["prog"] in ("alone", "comment", "indented") else want
        return fin(got in (want, want_alt))
    return fin(got == want)


# ------------------------------------------------------------------------------ H16e
# format_strings.maybe_replace_with_fstring (the use_fstrings fix): whenever a replacement is offered, it formats to
# the same text as the original % expression for every value of the arguments.

FS_TEMPLATES = ["%s", "%d", "n=%d", "%s and %s", "%d/%s", "a %s b"]
FS_VALUES = [True, 0, 7, -3, "a", 2.5, None]


def h16_fstring(v1: int, v2: int) -> bool:
    """
    post: _
    """
    # small selectors only (the solver enumerates them)
    from pyanalyze.format_strings import PercentFormatString, maybe_replace_with_fstring

    if excluded(v1=v1, v2=v2):
        return skip()
    if not (0 <= v1 < len(FS_VALUES) and 0 <= v2 < len(FS_VALUES)):
        return skip()
    a = b = None
    for i, val in enumerate(FS_VALUES):
        if v1 == i:
            a = val
        if v2 == i:
            b = val
    template = G.case["template"]
    n = template.count("%")
    fs = PercentFormatString.from_pattern(template)
    na, nb = ast.Name(id="a", ctx=ast.Load()), ast.Name(id="b", ctx=ast.Load())
    args_node = na if (n == 1 and not G.case["tuple"]) else ast.Tuple(elts=[na, nb][:n], ctx=ast.Load())
    new = maybe_replace_with_fstring(fs, args_node)
    if new is None:
        return fin(True, nontrivial=False)
    env = {"a": a, "b": b}
    try:
        want = eval(compile(ast.fix_missing_locations(ast.Expression(ast.BinOp(ast.Constant(template), ast.Mod(), args_node))), "<o>", "eval"), env)
    except TypeError:
        return fin(True, nontrivial=False)  # the original raises for these values: nothing to preserve
    got = eval(compile(ast.fix_missing_locations(ast.Expression(new)), "<n>", "eval"), env)
    return fin(got == want)


def cases(tier: str, seed: int) -> List[Case]:
    out: List[Case] = []
    quick = tier == "quick"
    for t in FS_TEMPLATES:
        for tup in ((0, 1) if t.count("%") == 1 else (1,)):
            out.append(Case("h16_fstring", f"fstring:{t}:{'tuple' if tup else 'single'}", {"template": t, "tuple": tup}, timeout=120, twin=True, vacuous_ok=True))
    for prog in PROGRAMS:
        out.append(Case("h16_replace", f"replace:{prog}", {"prog": prog}, timeout=120, twin=True, vacuous_ok=True))
    for n in range(1, (5 if quick else 6) + 1):
        for order in ("asc", "desc"):
            out.append(Case("h16_apply", f"apply:{n}:{order}", {"n": n, "order": order}, timeout=120 if quick else 400))
    for shape in SHAPES:
        out.append(Case("h16_range", f"range:{shape}", {"shape": shape}, timeout=120 if quick else 400))
    for name in LAYOUTS:
        for sites in ((1, 2) if quick else (1, 2, 3)):
            out.append(Case("h16_addign", f"addign:{name}:{sites}", {"layout": name, "sites": sites},
                            timeout=120 if quick else 600))
    return out
