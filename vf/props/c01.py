"""C01 - inferred values are sound w.r.t. execution: container element access kernels.

Structure (member layout, container type, unpack shape, dict shape) is enumerated; the index,
the slice bounds, the run-time length of every variadic member and the dict keys are solver
variables.  Oracle: Python's own tuple/list/dict semantics executed on the same symbolic data.
"""

from __future__ import annotations

import itertools
from typing import List, Optional

from pyanalyze import implementation as impl
from pyanalyze.signature import ImplReturn
from pyanalyze.value import (
    UNINITIALIZED_VALUE,
    AnySource,
    AnyValue,
    CanAssignError,
    DictIncompleteValue,
    GenericValue,
    KnownValue,
    KVPair,
    MultiValuedValue,
    SequenceValue,
    TypedValue,
    Value,
    flatten_values,
    unpack_values,
    _unpack_sequence_value,
)

from vf.common import install_coarse_hash, ALL_TAGS, TS, NotATag, StubVisitor, call_context, get_checker, tags
from vf.engine import Case
from vf.g import G, excluded, fin, skip

ID = "C01"
FUNCTIONS_ENCODED = [
    "pyanalyze.implementation._sequence_common_getitem_impl (tuple, list, Sequence; int and slice keys; typed layouts and literal tuples / lists)",
    "pyanalyze.value.unpack_values",
    "pyanalyze.value._unpack_sequence_value",
    "pyanalyze.value.replace_known_sequence_value",
    "pyanalyze.value.SequenceValue.get_member_sequence / make_or_known",
    "pyanalyze.implementation.len_of_value",
    "pyanalyze.value.DictIncompleteValue.get_value",
    "pyanalyze.value.unite_values / flatten_values",
]
BOUNDS = {
    "quick": {"members": "<= 4, any variadic pattern", "variadic_runtime_length": "0..3 each",
              "index": "unbounded int", "slice": "start/stop in [-(maxlen+1), maxlen+1] or None (larger magnitudes clamp identically), step structural",
              "unpack": "target_length 0..4, post_starred none/0..3", "dict": "<= 3 pairs, keys unbounded ints"},
    "thorough": {"members": "<= 5, any variadic pattern", "variadic_runtime_length": "0..3 each",
                 "index": "unbounded int", "slice": "start/stop in [-(maxlen+1), maxlen+1] or None (larger magnitudes clamp identically), step structural",
                 "unpack": "target_length 0..5, post_starred none/0..4", "dict": "<= 3 pairs, keys unbounded ints"},
}
OUTSIDE = [
    "control flow, scopes, calls, pattern matching, attribute inference (need the visitor: not symbolically executable here)",
    "aliasing mutation (excluded by the property)",
    "the wiring from ast.Subscript / ast.Assign targets to these kernels inside name_check_visitor.py",
]
STUBS = ["coarse-hash stub for KnownValue in h_dict_get (eq-consistent; DESIGN.md section 2 item 4)", "StubVisitor (real Checker as CanAssignContext; _check_dunder_call('__index__') returns its operand)"]
ASSUMPTIONS = ["element types are distinct marker classes, so membership of a run-time element is exact"]

_SV: Optional[SequenceValue] = None
_DV = None


def _seq_value(data) -> SequenceValue:
    typ = {"tuple": tuple, "list": list}[data["typ"]]
    return SequenceValue(typ, [(bool(m), TypedValue(TS[t])) for m, t in data["layout"]])


def prepare(template, data):
    global _SV, _DV
    get_checker()
    if template in ("h_dict_get", "h_getitem_lit"):
        install_coarse_hash()
    if "layout" in data:
        _SV = _seq_value(data)
    if data.get("unk"):
        # concrete warm-up outside tracing (type objects and generic bases of the first unknown-key lookup)
        saved = G.case
        G.case = data
        try:
            if template == "h_getitem_int":
                h_getitem_int(0, 1, 1, 1)
            elif template == "h_getitem_slice":
                h_getitem_slice(None, None, 1, 1, 1)
        except Exception:
            pass
        finally:
            G.case = saved
    if template == "h_dict_get":
        pairs = []
        for i, (req, many) in enumerate(data["pairs"]):
            pairs.append(None)  # keys are symbolic: built inside the harness
        _DV = None


def _runtime(layout, ks):
    """The run-time sequence of element tags for the symbolic variadic lengths ks, or None when a
    used length exceeds the case's bound `kmax` (those lengths are outside the claim)."""
    kmax = G.case.get("kmax", 3)
    nmany = sum(1 for m, _ in layout if m)
    for k in ks[:nmany]:
        if k < 0 or k > kmax:
            return None
    rt: List[int] = []
    vi = 0
    for many, t in layout:
        if many:
            k = ks[vi]
            vi += 1
            for kk in range(3):
                if kk < k:
                    rt.append(t)
        else:
            rt.append(t)
    return rt


def _ret(ret) -> Value:
    return ret.return_value if isinstance(ret, ImplReturn) else ret


def h_getitem_int(key: int, k0: int, k1: int, k2: int) -> bool:
    """
    post: _
    """
    if excluded(key=key, k0=k0, k1=k1, k2=k2):
        return skip()
    data = G.case
    typ = tuple if data["typ"] == "tuple" else list
    vis = StubVisitor()
    # "unk": the checker only knows that the key is an int; the run-time key is still the symbolic one
    ctx = call_context({"self": _SV, "obj": TypedValue(int) if data.get("unk") else KnownValue(key)}, vis)
    val = _ret(impl._sequence_common_getitem_impl(ctx, typ))
    rt = _runtime(data["layout"], (k0, k1, k2))
    if rt is None:
        return skip()
    n = len(rt)
    if not (-n <= key < n):
        # run time raises IndexError: nothing is evaluated, no containment obligation
        return skip()
    if vis.errors:
        # an error is reported although the subscript succeeds for these lengths
        return fin(False)
    return fin(rt[key] in tags(val))


def h_getitem_lit(key: int, x: int, y: int, b: bool) -> bool:
    """
    post: _
    """
    # a literal tuple / list with symbolic payloads: the inferred literal equals the element Python yields
    import collections.abc

    data = G.case
    kind = data["lit"]
    rt = (x, "a", y, b, None)[: data["n"]]
    typ = tuple
    if kind == "list":
        rt = list(rt)
        typ = list
    impl_typ = collections.abc.Sequence if data.get("as_sequence") else typ
    vis = StubVisitor()
    ctx = call_context({"self": KnownValue(rt), "obj": KnownValue(key)}, vis)
    val = _ret(impl._sequence_common_getitem_impl(ctx, impl_typ))
    n = len(rt)
    if not (-n <= key < n):
        if kind == "tuple" and not data.get("as_sequence"):
            return fin(len(vis.errors) > 0)  # a literal tuple index out of range is reported
        return skip()
    if vis.errors:
        return fin(False)
    want = rt[key]
    if not isinstance(val, KnownValue):
        return fin(False)
    return fin(type(val.val) is type(want) and (val.val is want or val.val == want))


def h_getitem_slice(a: Optional[int], b: Optional[int], k0: int, k1: int, k2: int) -> bool:
    """
    post: _
    """
    if excluded(a=a, b=b, k0=k0, k1=k1, k2=k2):
        return skip()
    data = G.case
    typ = tuple if data["typ"] == "tuple" else list
    step = data["step"]
    lim = data["lim"]
    # beyond len+1 every bound clamps the same way: larger magnitudes are outside the claim
    if a is not None and not (-lim <= a <= lim):
        return skip()
    if b is not None and not (-lim <= b <= lim):
        return skip()
    sl = slice(a, b, step)
    vis = StubVisitor()
    # "unk": the checker only knows that the key is a slice (x[i:] with i: int)
    ctx = call_context({"self": _SV, "obj": TypedValue(slice) if data.get("unk") else KnownValue(sl)}, vis)
    val = _ret(impl._sequence_common_getitem_impl(ctx, typ))
    rt = _runtime(data["layout"], (k0, k1, k2))
    if rt is None:
        return skip()
    got = rt[sl]
    if data.get("unk") and val is _SV and excluded(feat_unk_returns_self=True, nvariadic=sum(1 for m, _ in data["layout"] if m),
                                                   full=(len(got) == len(rt) and step is None), a=a, b=b):
        # known finding C01-K1 (region: the unsliced value itself is returned for an unknown slice)
        return skip()
    if vis.errors:
        return fin(False)
    if isinstance(val, KnownValue):
        # only possible for an empty result (markers are not KnownValues)
        return fin(isinstance(val.val, typ) and len(val.val) == 0 and len(got) == 0)
    if isinstance(val, SequenceValue):
        if val.typ is not typ:
            return fin(False)
        members = val.get_member_sequence()
        if members is None:
            allowed = tags(val.args[0])
            return fin(all(t in allowed for t in got))
        if len(members) != len(got):
            return fin(False)
        for m, t in zip(members, got):
            if t not in tags(m):
                return fin(False)
        return fin(True)
    if isinstance(val, GenericValue):
        if val.typ is not typ:
            return fin(False)
        if len(got) == 0:
            return fin(True)
        allowed = tags(val.args[0])
        return fin(all(t in allowed for t in got))
    if isinstance(val, AnyValue):
        return fin(True)
    return fin(False)


def _py_unpack(rt, target_length, post):
    """CPython's iterable unpacking on a list of tags: (targets or None if ValueError)."""
    n = len(rt)
    if post is None:
        if n != target_length:
            return None
        return [("one", t) for t in rt]
    if n < target_length + post:
        return None
    head = rt[:target_length]
    tail = rt[n - post:] if post else []
    mid = rt[target_length: n - post]
    return [("one", t) for t in head] + [("star", mid)] + [("one", t) for t in tail]


def h_unpack(k0: int, k1: int, k2: int) -> bool:
    """
    post: _
    """
    if excluded(k0=k0, k1=k1, k2=k2):
        return skip()
    data = G.case
    tl, post = data["target_length"], data["post"]
    res = unpack_values(_SV, get_checker(), tl, post)
    rt = _runtime(data["layout"], (k0, k1, k2))
    if rt is None:
        return skip()
    want = _py_unpack(rt, tl, post)
    if want is None:
        # ValueError at run time: no target is bound
        return skip()
    if isinstance(res, CanAssignError):
        # the checker rejects an unpacking that succeeds for these lengths; for a tuple this is a
        # reported error (no inferred value to be unsound), for a list unpack_values falls back
        return fin(data["typ"] == "tuple")
    if len(res) != len(want):
        return fin(False)
    for inferred, (kind, actual) in zip(res, want):
        if kind == "one":
            if actual not in tags(inferred):
                return fin(False)
        else:
            # starred target is a list of the middle elements
            if isinstance(inferred, SequenceValue):
                if inferred.typ is not list:
                    return fin(False)
                members = inferred.get_member_sequence()
                if members is not None:
                    if len(members) != len(actual):
                        return fin(False)
                    for m, t in zip(members, actual):
                        if t not in tags(m):
                            return fin(False)
                else:
                    allowed = tags(inferred.args[0]) if actual else ALL_TAGS
                    for t in actual:
                        if t not in allowed:
                            return fin(False)
            elif isinstance(inferred, GenericValue):
                if inferred.typ is not list:
                    return fin(False)
                if actual:
                    allowed = tags(inferred.args[0])
                    for t in actual:
                        if t not in allowed:
                            return fin(False)
            elif isinstance(inferred, KnownValue):
                if not (isinstance(inferred.val, list) and len(inferred.val) == 0 and len(actual) == 0):
                    return fin(False)
            elif not isinstance(inferred, AnyValue):
                return fin(False)
    return fin(True)


def h_len(k0: int, k1: int, k2: int) -> bool:
    """
    post: _
    """
    data = G.case
    val = impl.len_of_value(_SV)
    rt = _runtime(data["layout"], (k0, k1, k2))
    if rt is None:
        return skip()
    if isinstance(val, KnownValue):
        return fin(type(val.val) is int and val.val == len(rt))
    return fin(isinstance(val, TypedValue) and val.typ is int)


def h_dict_get(q: int, ka: int, kb: int, kc: int) -> bool:
    """
    post: _
    """
    # A dict display {ka: T0(), kb: T1(), kc: T2()} in source order (later pairs win), each pair
    # required or not (a non-required pair models conditional insertion: it may be absent at run
    # time - the `present` bits are part of the case).  Keys and the looked-up key are unbounded
    # ints (coarse-hash stub: equality is decided by the solver, not by realising a hash).
    data = G.case
    keys = [ka, kb, kc][: len(data["pairs"])]
    pairs = []
    for i, (required, present) in enumerate(data["pairs"]):
        pairs.append(KVPair(KnownValue(keys[i]), TypedValue(TS[i]), is_required=bool(required)))
    dv = DictIncompleteValue(dict, pairs)
    val = dv.get_value(KnownValue(q), get_checker())
    actual = None
    for i in range(len(keys) - 1, -1, -1):
        required, present = data["pairs"][i]
        if (required or present) and keys[i] == q:
            actual = i
            break
    if actual is None:
        return skip()  # KeyError at run time
    if val is UNINITIALIZED_VALUE:
        return fin(False)
    return fin(actual in tags(val))


def public_replay(template, data, args, kwargs):
    """Public route for a subscript counterexample: the same tuple type written as an annotation, the
    subscript checked by the real visitor through pyanalyze.ast_annotator.annotate_code."""
    if template != "h_getitem_int" or data["typ"] != "tuple":
        return {"note": "no public route generated for this template"}
    import ast
    import contextlib
    import io

    from pyanalyze.ast_annotator import annotate_code

    key = args[0]
    members = []
    for many, t in data["layout"]:
        members.append(f"Unpack[Tuple[T{t}, ...]]" if many else f"T{t}")
    classes = "".join(f"class T{i}: pass\n" for i in range(6))
    src = ("from typing import Tuple\nfrom typing_extensions import Unpack\n" + classes
           + f"def f(t: Tuple[{', '.join(members)}]):\n    x = t[{key}]\n    return x\n")
    with contextlib.redirect_stderr(io.StringIO()):
        tree = annotate_code(src)
    inferred = None
    for node in ast.walk(tree):
        if isinstance(node, ast.Assign):
            inferred = str(node.value.inferred_value)
    return {"snippet": src, "inferred_for_subscript": inferred,
            "runtime": "with the variadic lengths of the counterexample the element has the marker class the harness reports"}


def _layouts(maxlen: int, max_many: int = 3):
    for n in range(0, maxlen + 1):
        for manys in itertools.product([0, 1], repeat=n):
            if sum(manys) > max_many:
                continue
            yield [[m, i] for i, m in enumerate(manys)]


def _lname(layout):
    return "".join("*" if m else "." for m, _ in layout) or "empty"


def _kmax(layout, tier):
    nmany = sum(1 for m, _ in layout if m)
    if tier == "quick":
        return {0: 3, 1: 3, 2: 2, 3: 1}[nmany]
    return {0: 3, 1: 3, 2: 3, 3: 2}[nmany]


def cases(tier: str, seed: int) -> List[Case]:
    out: List[Case] = []
    quick = tier == "quick"
    maxlen = 4 if quick else 5
    steps = [None, -1] if quick else [None, 1, -1, 2, -2]
    for typ in ("tuple", "list"):
        for layout in _layouts(maxlen):
            nm = f"{typ}:{_lname(layout)}"
            nmany = sum(1 for m, _ in layout if m)
            kmax = _kmax(layout, tier)
            data = {"typ": typ, "layout": layout, "kmax": kmax}
            t = ((40 if len(layout) < 4 else 100) if nmany <= 1 else 150) if quick else (120 if nmany <= 1 else 900)
            if layout:
                out.append(Case("h_getitem_int", f"gi:{nm}", data, timeout=t))
                if len(layout) <= 3 and nmany <= 1:
                    out.append(Case("h_getitem_int", f"gi:{nm}:unk", dict(data, unk=1), timeout=t))
                maxn = (len(layout) - nmany) + kmax * nmany
                for st in steps:
                    if quick and (len(layout) > 3 or nmany > 1 or (st is not None and nmany > 0)):
                        continue
                    if not quick and (len(layout) > 3 or nmany > 2):
                        continue
                    d2 = dict(data, step=st, lim=min(8, maxn + 1))
                    out.append(Case("h_getitem_slice", f"gs:{nm}:step{st}", d2, timeout=60 if quick else 300))
                    if st in (None, -1) and nmany <= 1:
                        out.append(Case("h_getitem_slice", f"gs:{nm}:step{st}:unk", dict(d2, unk=1), timeout=60 if quick else 300))
            out.append(Case("h_len", f"len:{nm}", data, timeout=t))
    for kind in ("tuple", "list"):
        for n in (1, 3, 5):
            for as_seq in (0, 1):
                out.append(Case("h_getitem_lit", f"gl:{kind}:{n}:{'seq' if as_seq else 'own'}",
                                {"lit": kind, "n": n, "as_sequence": as_seq}, timeout=60 if quick else 180))
    # unpack shapes
    utl = 3 if quick else 5
    upost = 2 if quick else 4
    ulen = 3 if quick else 4
    for typ in ("tuple", "list"):
        for layout in _layouts(ulen, max_many=2):
            for tl in range(0, utl + 1):
                for post in [None] + list(range(0, upost + 1)):
                    nfixed = sum(1 for m, _ in layout if not m)
                    nmany = sum(1 for m, _ in layout if m)
                    need = tl + (post or 0)
                    kmax = 3 if nmany <= 1 else 2
                    # shapes that can never succeed at run time carry no obligation
                    if need > nfixed + kmax * nmany:
                        continue
                    if post is None and need < nfixed:
                        continue
                    data = {"typ": typ, "layout": layout, "target_length": tl, "post": post, "kmax": kmax}
                    out.append(Case("h_unpack", f"un:{typ}:{_lname(layout)}:{tl}:{'-' if post is None else post}", data, timeout=30 if quick else 90))
    for n in (1, 2, 3):
        for flags in itertools.product([(1, 1), (0, 1), (0, 0)], repeat=n):
            if not any(r or p for r, p in flags):
                continue  # no key is present at run time: no obligation
            data = {"pairs": [list(f) for f in flags]}
            nm = ",".join("R" if r else ("o+" if p else "o-") for r, p in flags)
            out.append(Case("h_dict_get", f"dg:{nm}", data, timeout=60 if quick else 900))
    return out
