"""C08 - overload resolution follows first-match and distributes over unions.

The real `OverloadedSignature.check_call` (with `preprocess_args`, `bind_arguments`,
`check_call_preprocessed`, `_check_param_type_compatibility`, `decompose_union`, `_unite_rets`,
`can_assign_and_used_any`, the Checker's Any bookkeeping) runs on overload sets whose annotations
are stub atoms under a *symbolic preorder*; a minimal visitor provides the error-catching protocol.
Oracle: a reference resolver written from the property statement, on the same relation.
"""

from __future__ import annotations

import ast
import itertools
import zlib
from typing import List

from pyanalyze.signature import OverloadedSignature, ParameterKind, Signature, SigParameter
from pyanalyze.stacked_scopes import Composite
from pyanalyze.value import AnySource, AnyValue, GenericValue, KnownValue, MultiValuedValue, TypedValue, flatten_values

from vf.common import Atom, MiniVisitor, Rel, get_checker, ref_accepts
from vf.engine import Case
from vf.g import G, excluded, fin, skip

ID = "C08"
FUNCTIONS_ENCODED = [
    "pyanalyze.signature.OverloadedSignature.check_call / _unite_rets / _make_detail",
    "pyanalyze.signature.Signature.check_call_preprocessed / check_call_with_bound_args / _check_param_type_compatibility / bind_arguments",
    "pyanalyze.signature.decompose_union / preprocess_args",
    "pyanalyze.value.can_assign_and_used_any, pyanalyze.checker.Checker.reset_any_used / record_any_used / has_used_any_match",
]
BOUNDS = {
    "quick": {"overload_sets": "2 or 3 overloads, each with 1 or 2 parameters (positional-or-keyword, keyword-only, typed *args or **kwargs), annotations atom / union of two atoms; overlapping and shadowed sets included",
              "arguments": "atoms, one union of two atoms (three atoms against three or more overloads), or Any; passed positionally or by keyword", "relation": "every preorder on 3 atoms (6 symbolic booleans)"},
    "thorough": {"overload_sets": "2 to 4 overloads", "arguments": "same", "relation": "same"},
}
OUTSIDE = ["how arg_spec builds OverloadedSignature from @overload definitions / typeshed", "type variables in overloads (C15)", "the text of the error detail"]
STUBS = ["minimal visitor (catch_errors / show_caught_errors / show_error copied from BaseNodeVisitor's behaviour) delegating CanAssignContext to the real Checker", "stub atoms with a symbolic preorder"]
ASSUMPTIONS = ["the reference resolver is the algorithm of the property statement (40 lines)"]

NODE = ast.Name(id="call")
RETS = [KnownValue("r0"), KnownValue("r1"), KnownValue("r2"), KnownValue("r3")]
ANN = ["a0", "a1", "a2", "u01", "u12"]


def _ann(name, atoms):
    if name[0] == "a":
        return atoms[int(name[1])]
    return MultiValuedValue([atoms[int(c)] for c in name[1:]])


def _mk_sig(spec, atoms, ret):
    params = []
    for i, p in enumerate(spec):
        nm, ann, kwonly = p[0], p[1], p[2]
        has_default = len(p) > 3 and p[3]
        if kwonly == "star":  # *args: ann
            params.append(SigParameter(nm, ParameterKind.VAR_POSITIONAL, annotation=GenericValue(tuple, [_ann(ann, atoms)])))
            continue
        if kwonly == "dstar":  # **kwargs: ann
            params.append(SigParameter(nm, ParameterKind.VAR_KEYWORD, annotation=GenericValue(dict, [TypedValue(str), _ann(ann, atoms)])))
            continue
        kind = ParameterKind.KEYWORD_ONLY if kwonly else ParameterKind.POSITIONAL_OR_KEYWORD
        params.append(SigParameter(nm, kind, annotation=_ann(ann, atoms),
                                   default=_ann(ann, atoms) if has_default else None))
    return Signature.make(params, ret)


def _arg_value(name, atoms):
    if name == "any":
        return AnyValue(AnySource.explicit)
    return _ann(name, atoms)


def _members(name):
    """atoms a union argument decomposes into"""
    if name[0] == "a":
        return [name]
    return ["a" + c for c in name[1:]]


def _ref_sig_accepts(rel, atoms, spec, call) -> bool:
    """does one overload bind the call shape and accept every argument? (Any accepted everywhere)"""
    spec = [tuple(p) + (False,) * (4 - len(p)) for p in spec]
    star = [p for p in spec if p[2] == "star"]
    dstar = [p for p in spec if p[2] == "dstar"]
    spec = [p for p in spec if p[2] not in ("star", "dstar")]
    names = [p[0] for p in spec]
    given = {}
    pos = [a for a in call if a[0] is None]
    posparams = [p for p in spec if not p[2]]
    extra = []  # (annotation, argument) pairs absorbed by *args / **kwargs
    if len(pos) > len(posparams):
        if not star:
            return False
        extra += [(star[0][1], argname) for lbl, argname in pos[len(posparams):]]
        pos = pos[:len(posparams)]
    for (lbl, argname), p in zip(pos, posparams):
        given[p[0]] = argname
    for lbl, argname in call:
        if lbl is None:
            continue
        if lbl in given:
            return False
        if lbl not in names:
            if not dstar:
                return False
            extra.append((dstar[0][1], argname))
            continue
        given[lbl] = argname
    for ann, argname in extra:
        if argname != "any" and not ref_accepts(rel, _ann(ann, atoms), _ann(argname, atoms)):
            return False
    for nm, ann, kwonly, has_default in spec:
        if nm not in given:
            if has_default:
                continue
            return False
        argname = given[nm]
        if argname == "any":
            continue
        if not ref_accepts(rel, _ann(ann, atoms), _ann(argname, atoms)):
            return False
    return True


def _first_match(rel, atoms, specs, call):
    for i, spec in enumerate(specs):
        if _ref_sig_accepts(rel, atoms, spec, call):
            return i
    return None


def h08(b0: bool, b1: bool, b2: bool, b3: bool, b4: bool, b5: bool) -> bool:
    """
    post: _
    """
    if excluded(b0=b0, b1=b1, b2=b2, b3=b3, b4=b4, b5=b5):
        return skip()
    data = G.case
    rel = Rel(3, (b0, b1, b2, b3, b4, b5))
    atoms = [Atom(i, rel) for i in range(3)]
    specs = data["sigs"]
    call = [tuple(c) for c in data["call"]]
    sigs = [_mk_sig(spec, atoms, RETS[i]) for i, spec in enumerate(specs)]
    ov = OverloadedSignature(sigs)
    vis = MiniVisitor()
    if data.get("star"):
        # the argument arrives as *seq (seq: list[<union>]): no position of its own to narrow - a verdict must still
        # come back (no exception), and a sequence none of whose member types any overload takes is diagnosed
        from pyanalyze.signature import ARGS

        elem = _arg_value(call[0][1], atoms)
        ret = ov.check_call([(Composite(GenericValue(list, [elem])), ARGS)], vis, NODE)
        diagnosed = len(vis.errors) > 0
        mems = _members(call[0][1])
        if all(_first_match(rel, atoms, specs, [(None, m)]) is None for m in mems):
            return fin(diagnosed)
        return fin(True)
    args = [(Composite(_arg_value(argname, atoms)), lbl) for lbl, argname in call]
    ret = ov.check_call(args, vis, NODE)
    diagnosed = len(vis.errors) > 0
    argnames = [a for _, a in call]
    n_any = sum(1 for a in argnames if a == "any")
    unions = [i for i, a in enumerate(argnames) if a[0] == "u"]
    if n_any == 0 and not unions:
        m = _first_match(rel, atoms, specs, call)
        if m is None:
            return fin(diagnosed)
        return fin((not diagnosed) and ret == RETS[m])
    if n_any == 0 and len(unions) == 1:
        ui = unions[0]
        results = []
        for mem in _members(argnames[ui]):
            c2 = list(call)
            c2[ui] = (call[ui][0], mem)
            results.append(_first_match(rel, atoms, specs, c2))
        if any(r is None for r in results):
            return fin(diagnosed)
        if diagnosed:
            return fin(False)
        got = set(flatten_values(ret))
        if isinstance(ret, AnyValue):
            return fin(True)
        for r in results:
            if RETS[r] not in got:
                return fin(False)
        return fin(True)
    if n_any >= 1 and not unions:
        matching = [i for i, spec in enumerate(specs) if _ref_sig_accepts(rel, atoms, spec, call)]
        if not matching:
            return fin(diagnosed)
        if diagnosed:
            return fin(False)
        if len(matching) == 1:
            return fin(ret == RETS[matching[0]])
        # several overloads match: Any must not select one overload's type, unless the first matching
        # overload matches without relying on Any (a clean match ends the search)
        first = matching[0]
        clean_first = True
        # the first matching overload is clean iff none of its parameters received the Any argument
        names_given = {}
        pos = [a for a in call if a[0] is None]
        posparams = [p for p in specs[first] if not p[2]]
        for (lbl, argname), p in zip(pos, posparams):
            names_given[p[0]] = argname
        for lbl, argname in call:
            if lbl is not None:
                names_given[lbl] = argname
        if any(v == "any" for v in names_given.values()):
            clean_first = False
        if clean_first:
            return fin(ret == RETS[first])
        return fin(isinstance(ret, AnyValue) or ret not in RETS)
    return skip()


def prepare(template, data):
    """warm the checker caches outside tracing"""
    get_checker()
    saved = G.case
    G.case = data
    try:
        h08(False, False, False, False, False, False)
        h08(True, True, True, True, True, True)
    finally:
        G.case = saved


def _sig_specs(nparams_options, kwonly_options):
    out = []
    for n in nparams_options:
        for anns in itertools.product(ANN[:4], repeat=n):
            for kwonly in kwonly_options:
                spec = []
                for i, a in enumerate(anns):
                    spec.append([["x", "y"][i], a, bool(kwonly and i == n - 1)])
                out.append(spec)
    return out


def _label(sigs, call):
    def s1(spec):
        return "(" + ",".join(({"star": "*", "dstar": "**"}.get(p[2]) or ("*," if p[2] else "")) + p[0] + ":" + p[1] + ("=" if len(p) > 3 and p[3] else "") for p in spec) + ")"
    return "".join(s1(s) for s in sigs) + "<-" + ",".join((lbl + "=" if lbl else "") + a for lbl, a in call)


def cases(tier: str, seed: int) -> List[Case]:
    out: List[Case] = []
    quick = tier == "quick"
    one = _sig_specs([1], [0])  # f(x: ann)
    onek = _sig_specs([1], [1])  # f(*, x: ann)
    two = _sig_specs([2], [0, 1])
    args1 = ["a0", "a1", "a2", "u01", "u12", "any"]
    idx = 0
    # sets of 1-parameter overloads, positional and keyword calls
    for k in (2, 3) if quick else (2, 3, 4):
        for combo in itertools.product(one, repeat=k):
            # a three-member union needs successive decompositions by different overloads
            for arg in args1 + (["u012"] if k >= 3 else []):
                for style in ("pos", "kw"):
                    idx += 1
                    if k == 3 and arg != "u012" and (idx + seed) % (6 if quick else 2) != 0:
                        continue
                    if k == 3 and arg == "u012" and quick and (idx + seed) % 2 != 0 and not all(s[0][1][0] == "a" for s in combo):
                        continue
                    if k == 4 and (idx + seed) % 40 != 0:
                        continue
                    call = [[None if style == "pos" else "x", arg]]
                    sigs = [list(map(list, s)) for s in combo]
                    out.append(Case("h08", _label(sigs, call), {"sigs": sigs, "call": call}, timeout=60 if quick else 180,
                                    twin=(idx % 6 == 0)))
    # keyword-only parameter overloads
    for combo in itertools.product(onek, repeat=2):
        for arg in args1:
            idx += 1
            if quick and (idx + seed) % 2 != 0:
                continue
            call = [["x", arg]]
            sigs = [list(map(list, s)) for s in combo]
            out.append(Case("h08", _label(sigs, call), {"sigs": sigs, "call": call}, timeout=60, twin=(idx % 6 == 0)))
    # differing arities / two parameters
    args2 = ["a0", "a1", "u01", "any"]
    for s1 in one[:3]:
        for s2 in two:
            for a1 in args2:
                for a2 in [None] + args2[:3]:
                    idx += 1
                    # one union argument next to a plain one: an overload may decompose the first and reject the second
                    # (sampled densely and by label, so that the sample does not move when other families change)
                    one_union = a2 is not None and (a1[0] == "u") != (a2[0] == "u") and "any" not in (a1, a2)
                    key = zlib.crc32(f"{s1}{s2}{a1}{a2}".encode()) + seed
                    if key % ((5 if one_union else 25) if quick else (2 if one_union else 6)) != 0:
                        continue
                    if a2 is not None and a1[0] == "u" and a2[0] == "u":
                        continue
                    if a2 is not None and "any" in (a1, a2) and (a1[0] == "u" or a2[0] == "u"):
                        continue  # Any together with a union: outside the statement's cases
                    kw2 = s2[1][2]
                    call = [[None, a1]] + ([[("y" if kw2 else None), a2]] if a2 is not None else [])
                    for order in ((s1, s2), (s2, s1)):
                        sigs = [list(map(list, s)) for s in order]
                        out.append(Case("h08", _label(sigs, call), {"sigs": sigs, "call": call}, timeout=60 if quick else 180,
                                        twin=(idx % 6 == 0)))
    for s1 in two[::3]:
        for s2 in two[1::4]:
            for a1 in args2:
                for a2 in args2[:3]:
                    idx += 1
                    one_union = (a1[0] == "u") != (a2[0] == "u") and "any" not in (a1, a2)
                    key = zlib.crc32(f"{s1}{s2}{a1}{a2}".encode()) + seed
                    if key % ((3 if one_union else 20) if quick else (1 if one_union else 5)) != 0:
                        continue
                    if a1[0] == "u" and a2[0] == "u":
                        continue
                    if "any" in (a1, a2) and (a1[0] == "u" or a2[0] == "u"):
                        continue
                    for style in ("pos", "kw"):
                        call = [[None, a1], [("y" if (style == "kw" or s1[1][2] or s2[1][2]) else None), a2]]
                        sigs = [list(map(list, s1)), list(map(list, s2))]
                        lab = _label(sigs, call)
                        if any(c.label == lab for c in out[-4:]):
                            continue
                        out.append(Case("h08", lab, {"sigs": sigs, "call": call}, timeout=60 if quick else 180, twin=(idx % 6 == 0)))
    for combo in itertools.product(one[:3], repeat=2):
        for arg in ("u01", "u12", "a0"):
            sigs = [list(map(list, sg)) for sg in combo]
            call = [[None, arg]]
            out.append(Case("h08", "star:" + _label(sigs, call), {"sigs": sigs, "call": call, "star": 1}, timeout=60, twin=False))
    # overloads with typed *args / **kwargs: an omitted variadic parameter is not an Any match, extra arguments are
    # checked against the variadic annotation
    for a1 in ANN[:3]:
        for a2 in ANN[:3]:
            for a3 in ANN[:4]:
                for vk, vn in (("star", "args"), ("dstar", "kw")):
                    s1 = [["x", a1, False], [vn, a2, vk]]
                    s2 = [["x", a3, False]]
                    for order in ((s1, s2), (s2, s1)):
                        for call in ([[None, "a0"]], [[None, "a1"]], [[None, "u01"]], [[None, "a0"], [None if vk == "star" else "y", "a1"]],
                                     [[None, "any"]]):
                            idx += 1
                            sigs = [[list(p) for p in sg] for sg in order]
                            lab = _label(sigs, call)
                            if (zlib.crc32(lab.encode()) + seed) % (6 if quick else 2) != 0:
                                continue
                            out.append(Case("h08", lab, {"sigs": sigs, "call": call}, timeout=60 if quick else 180, twin=(idx % 6 == 0)))
    # an overload whose second parameter has a default, next to a one-parameter overload: calls with one argument
    # reach both
    for s1 in one[:3]:
        for s2 in two[:8]:
            s2d = [list(s2[0]), list(s2[1]) + [True]]
            for a1 in args2:
                for a2 in [None, "a0", "u01"]:
                    idx += 1
                    if (idx + seed) % (6 if quick else 2) != 0:
                        continue
                    if a2 is not None and a1[0] == "u" and a2[0] == "u":
                        continue
                    if a2 is not None and "any" in (a1, a2) and (a1[0] == "u" or a2[0] == "u"):
                        continue
                    kw2 = s2d[1][2]
                    call = [[None, a1]] + ([[("y" if kw2 else None), a2]] if a2 is not None else [])
                    for order in ((s1, s2d), (s2d, s1)):
                        sigs = [[list(p) for p in s] for s in order]
                        out.append(Case("h08", _label(sigs, call), {"sigs": sigs, "call": call}, timeout=60 if quick else 180, twin=True))
    # de-duplicate labels
    seen = set()
    res = []
    for c in out:
        if c.label not in seen:
            seen.add(c.label)
            res.append(c)
    return res
