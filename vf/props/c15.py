"""C15 - type-variable solutions satisfy the bounds they were solved from (call level).

See vf/callcheck.py for the code under test.  Structure: the generic signature (parameter kinds
T / list[T] / Callable[[T], None] / Callable[[], T], plain / bounded / constrained T), which atom each
argument is; every permutation of the parameter list is evaluated inside the same path.  Solver
variables: the preorder between the atoms (6 booleans, constructive encoding).
"""

from __future__ import annotations

import itertools
from typing import List

from pyanalyze.value import AnyValue, MultiValuedValue

from vf import callcheck as CC
from vf.common import Atom, Rel, get_checker, ref_accepts
from vf.engine import Case
from vf.g import G, excluded, fin, skip

ID = "C15"
FUNCTIONS_ENCODED = [
    "pyanalyze.signature.Signature.check_call_preprocessed / check_call_with_bound_args / _check_param_type_compatibility (both passes)",
    "pyanalyze.typevar.resolve_bounds_map / solve / remove_redundant_solutions", "pyanalyze.value.unify_bounds_maps / intersect_bounds_maps",
    "pyanalyze.value.TypeVarValue.can_assign / can_be_assigned / make_bounds_map / get_inherent_bounds / substitute_typevars",
    "pyanalyze.value.CallableValue.can_assign -> pyanalyze.signature.Signature.can_assign (source of upper bounds)", "pyanalyze.value.GenericValue.can_assign (list[T], dict[T, U])", "two type variables: dict[T, U], Callable[[T], U] (h15_two)",
]
BOUNDS = {
    "quick": {"solver_level": "multisets of 2-3 lower / upper bounds (atoms and one union) on one type variable, every order, every preorder", "signatures": "1-3 parameters from {T, list[T], Callable[[T], None], Callable[[], T]} (+ dict[T, U], Callable[[T], U] with two variables), T plain / bound to an atom / constrained to two atoms, return T; all orders for <= 2 parameters, reversal + both rotations for 3",
              "arguments": "atoms (distinct per parameter / all the same) or one Any; a 60th of the 3-parameter signatures plus the pinned Any + callback family", "relation": "every preorder on 3 atoms"},
    "thorough": {"signatures": "same, all argument assignments", "arguments": "same", "relation": "same"},
}
OUTSIDE = ["bounds produced by protocols / generic user classes (need the visitor and attribute lookup)", "ParamSpec solving"]
STUBS = ["stub atoms with a symbolic preorder", "_CanAssignBasedContext with the real Checker collects the errors"]
ASSUMPTIONS = ["reference acceptance between unions of atoms: vf/common.ref_accepts"]


def prepare(template, data):
    get_checker()
    saved = G.case
    G.case = data
    try:
        fn = {"h15": h15, "h15_two": h15_two, "h15_bounds": h15_bounds}[template]
        fn(False, False, False, False, False, False)
        fn(True, True, True, True, True, True)
    finally:
        G.case = saved


def _perms(n: int, which: str):
    """non-identity orders of the parameter list: all of them, or (quick tier, 3 parameters) the reversal
    and the two rotations - every pair of parameters is swapped in at least one of them"""
    allp = [p for p in itertools.permutations(range(n)) if list(p) != list(range(n))]
    if which == "all" or n < 3:
        return allp
    return [(2, 1, 0), (1, 2, 0), (2, 0, 1)]


def h15(b0: bool, b1: bool, b2: bool, b3: bool, b4: bool, b5: bool) -> bool:
    """
    post: _
    """
    if excluded(b0=b0, b1=b1, b2=b2, b3=b3, b4=b4, b5=b5):
        return skip()
    data = G.case
    rel = Rel(3, (b0, b1, b2, b3, b4, b5))
    atoms = [Atom(i, rel) for i in range(3)]
    params = [(f"p{i}", tuple(a), None) for i, a in enumerate(data["params"])]
    args = [tuple(a) if isinstance(a, list) else a for a in data["args"]]
    tvspec = tuple(data["tv"])
    diagnosed, ret, errors = CC.run_call(params, ("T",), tvspec, args, atoms)
    # 1. the verdict does not depend on the order of the arguments that contribute bounds
    for perm in _perms(len(params), data.get("perms", "all")):
        d2, r2, e2 = CC.run_call(params, ("T",), tvspec, args, atoms, order=perm)
        if d2 != diagnosed:
            return fin(False)
    lows, ups = CC.bounds_of(params, args, atoms)
    if tvspec[0] == "bound":
        ups = ups + [atoms[tvspec[1]]]
    if tvspec[0] == "constr":
        cands = [atoms[tvspec[1]], atoms[tvspec[2]]]
    else:
        cands = CC.candidates(atoms)
    feasible = False
    for c in cands:
        ok = True
        for lo in lows:
            if not ref_accepts(rel, c, lo):
                ok = False
        for up in ups:
            if not ref_accepts(rel, up, c):
                ok = False
        if ok:
            feasible = True
    if diagnosed:
        # 3. a diagnosis is only required when no value exists; a diagnosis of a feasible call would
        #    be incompleteness, which the statement does not forbid - nothing to check
        return fin(True, nontrivial=not feasible)
    # 2. accepted: the solution satisfies every bound
    feat_constr_upper_only = tvspec[0] == "constr" and not lows and bool(ups)
    feat_constr_lower_and_upper = tvspec[0] == "constr" and bool(lows) and bool(ups)
    if excluded(feat_constr_upper_only=feat_constr_upper_only, feat_constr_lower_and_upper=feat_constr_lower_and_upper,
                accepted_infeasible=not feasible):
        return skip()
    if not feasible and (lows or tvspec[0] == "constr") and "any" not in args:
        return fin(False)  # accepted although no value satisfies the bounds
    S = ret
    if isinstance(S, AnyValue):
        return fin(True, nontrivial=False)
    for lo in lows:
        if not ref_accepts(rel, S, lo):
            return fin(False)
    for up in ups:
        if not ref_accepts(rel, up, S):
            return fin(False)
    if tvspec[0] == "constr":
        if not (S == atoms[tvspec[1]] or S == atoms[tvspec[2]]):
            return fin(False)
    return fin(True)


def h15_two(b0: bool, b1: bool, b2: bool, b3: bool, b4: bool, b5: bool) -> bool:
    """
    post: _
    """
    # two type variables: dict[T, U], Callable[[T], U]; the solution of both is read from the return type dict[T, U]
    if excluded(b0=b0, b1=b1, b2=b2, b3=b3, b4=b4, b5=b5):
        return skip()
    from pyanalyze.value import GenericValue

    data = G.case
    rel = Rel(3, (b0, b1, b2, b3, b4, b5))
    atoms = [Atom(i, rel) for i in range(3)]
    params = [(f"p{i}", tuple(a), None) for i, a in enumerate(data["params"])]
    args = [tuple(a) if isinstance(a, list) else a for a in data["args"]]
    diagnosed, ret, errors = CC.run_call(params, ("dictTU",), ("plain",), args, atoms)
    for perm in _perms(len(params), data.get("perms", "all")):
        d2, r2, e2 = CC.run_call(params, ("dictTU",), ("plain",), args, atoms, order=perm)
        if d2 != diagnosed:
            return fin(False)
    b = CC.bounds_of2(params, args, atoms)
    feasible = True
    for var in ("T", "U"):
        lows, ups = b[var]
        okv = False
        for c in CC.candidates(atoms):
            if all(ref_accepts(rel, c, lo) for lo in lows) and all(ref_accepts(rel, up, c) for up in ups):
                okv = True
        if not okv:
            feasible = False
    if diagnosed:
        return fin(True, nontrivial=not feasible)
    if not feasible:
        return fin(False)
    if not isinstance(ret, GenericValue) or len(ret.args) != 2:
        return fin(False)
    for var, S in (("T", ret.args[0]), ("U", ret.args[1])):
        if isinstance(S, AnyValue):
            continue
        lows, ups = b[var]
        for lo in lows:
            if not ref_accepts(rel, S, lo):
                return fin(False)
        for up in ups:
            if not ref_accepts(rel, up, S):
                return fin(False)
    return fin(True)


KINDS = [("T",), ("boxT",), ("cbT",), ("retT",)]
TVS = [("plain",), ("bound", 0), ("bound", 2), ("constr", 0, 1), ("constr", 1, 2)]


# ----------------------------------------------------------------------------------------
# H15c: the solver entry point itself (observe_at: typevar.resolve_bounds_map on public Bound objects): a multiset
# of lower / upper bounds on one type variable, resolved in every order inside one path.  Obligations: the verdict
# (error or solution) is the same in every order; a solution accepts every lower bound and is accepted by every
# upper bound (known finding C15-K2 when there are several upper bounds).
# ----------------------------------------------------------------------------------------


def _bval(spec, atoms):
    if isinstance(spec, (list, tuple)):
        return MultiValuedValue([atoms[spec[1]], atoms[spec[2]]])
    return atoms[spec]


def h15_bounds(b0: bool, b1: bool, b2: bool, b3: bool, b4: bool, b5: bool) -> bool:
    """
    post: _
    """
    if excluded(b0=b0, b1=b1, b2=b2, b3=b3, b4=b4, b5=b5):
        return skip()
    from pyanalyze.typevar import resolve_bounds_map
    from pyanalyze.value import LowerBound, UpperBound

    rel = Rel(3, (b0, b1, b2, b3, b4, b5))
    atoms = [Atom(i, rel) for i in range(3)]
    ctx = get_checker()
    bounds = []
    for kind, spec in G.case["bounds"]:
        v = _bval(spec, atoms)
        bounds.append(LowerBound(CC.T, v) if kind == "L" else UpperBound(CC.T, v))
    n_upper = sum(1 for b in bounds if isinstance(b, UpperBound))
    verdict = None
    for perm in itertools.permutations(range(len(bounds))):
        tv_map, errors = resolve_bounds_map({CC.T: [bounds[i] for i in perm]}, ctx)
        acc = not errors
        if verdict is None:
            verdict = acc
        elif acc != verdict:
            # with several upper bounds the union built from them (known finding C15-K2) also makes the verdict depend
            # on when the lower bound is compared with it
            if excluded(feat_several_uppers=(n_upper >= 2), b0=b0, b1=b1, b2=b2, b3=b3, b4=b4, b5=b5):
                return skip()
            return fin(False)
        if acc:
            S = tv_map[CC.T]
            if isinstance(S, AnyValue):
                continue
            for b in bounds:
                if isinstance(b, LowerBound) and not ref_accepts(rel, S, b.value):
                    return fin(False)
            for b in bounds:
                if isinstance(b, UpperBound) and not ref_accepts(rel, b.value, S):
                    # known finding C15-K2: several upper bounds are united instead of intersected
                    if excluded(feat_several_uppers=(n_upper >= 2), b0=b0, b1=b1, b2=b2, b3=b3, b4=b4, b5=b5):
                        return skip()
                    return fin(False)
    return fin(True)


def _bounds_cases(tier: str, seed: int) -> List[Case]:
    import zlib

    quick = tier == "quick"
    vocab = [("L", 0), ("L", 1), ("L", 2), ("L", ["u", 0, 1]), ("U", 0), ("U", 1), ("U", 2), ("U", ["u", 0, 1])]
    out = []
    for n in (2, 3) if quick else (2, 3, 4):
        for ms in itertools.combinations_with_replacement(range(len(vocab)), n):
            if len(set(ms)) == 1:
                continue
            bs = [vocab[i] for i in ms]
            lab = "bd:" + ",".join(k + (str(s) if not isinstance(s, list) else "u%d%d" % (s[1], s[2])) for k, s in bs)
            if n == 3 and quick and (zlib.crc32(lab.encode()) + seed) % 2 != 0:
                continue
            if n == 4 and (zlib.crc32(lab.encode()) + seed) % 3 != 0:
                continue
            out.append(Case("h15_bounds", lab, {"bounds": [[k, s] for k, s in bs]}, timeout=90 if quick else 300, twin=True))
    return out


def _lab(params, tv, args):
    return ",".join(p[0] for p in params) + "|" + ":".join(map(str, tv)) + "|" + ",".join(str(a) for a in args)


def cases(tier: str, seed: int) -> List[Case]:
    out: List[Case] = _bounds_cases(tier, seed)
    quick = tier == "quick"
    idx = 0
    for n in (1, 2, 3):
        for kinds in itertools.product(KINDS, repeat=n):
            if all(k[0] == "cbT" for k in kinds) and n == 3:
                continue  # (callbacks only: kept for 1 and 2 parameters - the solution is then an upper bound)
            for tv in (TVS[:2] + TVS[3:4] if quick else TVS):
                if quick:
                    patterns = [[i % 3 for i in range(n)], [0] * n]
                    if n <= 2:
                        patterns.append([(i + 2) % 3 for i in range(n)])  # starts at atom 2: outside constraints (0, 1)
                else:
                    patterns = [list(p) for p in itertools.product(range(3), repeat=n)]
                # one Any argument in a T position
                for pos in range(n):
                    if kinds[pos][0] == "T" and n >= 2:
                        base = [(i + 1) % 3 for i in range(n)]
                        base[pos] = "any"
                        patterns.append(base)
                seen = set()
                for args in patterns:
                    key = tuple(args)
                    if key in seen:
                        continue
                    seen.add(key)
                    idx += 1
                    keep = ("any" in args and tv[0] == "plain" and sum(1 for k in kinds if k[0] == "cbT") == 1
                            and sum(1 for k in kinds if k[0] == "T") == 2)
                    if quick and n == 3 and (idx + seed) % 60 != 0 and not keep:
                        continue
                    if quick and n == 2 and (idx + seed) % 2 != 0 and "any" not in args:
                        continue
                    if (not quick) and n == 3 and (idx + seed) % 12 != 0 and not keep:
                        continue
                    params = [list(k) for k in kinds]
                    out.append(Case("h15", _lab(kinds, tv, args), {"params": params, "tv": list(tv), "args": list(args), "perms": "some" if quick else "all"},
                                    timeout=90 if quick else 300, twin=(idx % 4 == 0), vacuous_ok=True))
    # pinned in every tier: the witness of known finding C15-K3 (all arguments of the atom below both constraints)
    if not any(c.label == "T,cbT|constr:0:1|2,2" for c in out):
        out.append(Case("h15", "T,cbT|constr:0:1|2,2", {"params": [["T"], ["cbT"]], "tv": ["constr", 0, 1], "args": [2, 2],
                                                        "perms": "some" if quick else "all"}, timeout=90 if quick else 300, twin=True, vacuous_ok=True))
    # two type variables
    kinds2 = [("T",), ("U",), ("cbTU",), ("dictTU",)]
    for n in (1, 2, 3):
        for kinds in itertools.product(kinds2, repeat=n):
            if not any(k[0] in ("cbTU", "dictTU") for k in kinds):
                continue
            argsets = []
            for shift in (0, 1) if quick else (0, 1, 2):
                a = []
                for i, k in enumerate(kinds):
                    if k[0] in ("cbTU", "dictTU"):
                        a.append([(i + shift) % 3, (i + shift + 1) % 3])
                    else:
                        a.append((i + shift) % 3)
                argsets.append(a)
            for args in argsets:
                idx += 1
                if n == 3 and (quick or (idx + seed) % 2 != 0):
                    continue
                out.append(Case("h15_two", "two:" + ",".join(k[0] for k in kinds) + "|" + ";".join(str(a) for a in args),
                                {"params": [list(k) for k in kinds], "args": args, "perms": "some" if quick else "all"}, timeout=90 if quick else 300,
                                twin=(idx % 4 == 0), vacuous_ok=True))
    return out
