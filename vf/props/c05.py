"""C05 - argument-to-parameter binding agrees with CPython.

The real `preprocess_args` + `Signature.bind_arguments` run on an enumerated signature; the call
shape (number of positionals, keyword presence, *tuple-literal, **dict-literal, unknown-length
*args / **kwargs) is symbolic.  Oracle: `inspect.Signature.bind` (CPython's binder, pure Python)
executed on the same symbolic shape; E3 checks inspect against actually calling a generated def.
"""

from __future__ import annotations

import inspect
import itertools
from typing import Dict, List, Optional, Tuple

from pyanalyze.signature import (
    ARGS,
    KWARGS,
    ParameterKind,
    Signature,
    SigParameter,
    _CanAssignBasedContext,
    preprocess_args,
)
from pyanalyze.stacked_scopes import Composite
from pyanalyze.value import AnySource, AnyValue, GenericValue, KnownValue, TypedValue

from vf.common import get_checker, install_coarse_hash
from vf.engine import Case
from vf.g import G, excluded, fin, skip

ID = "C05"
FUNCTIONS_ENCODED = [
    "pyanalyze.signature.preprocess_args",
    "pyanalyze.signature._preprocess_kwargs_no_mvv / _preprocess_kwargs_kv_pairs",
    "pyanalyze.signature.Signature.bind_arguments",
    "pyanalyze.value.concrete_values_from_iterable",
]
BOUNDS = {
    "quick": {"signatures": "<= 3 parameters over all five kinds and default patterns inspect accepts",
              "plain": "0..4 positionals x keyword presence for every parameter name + one foreign name",
              "literals": "0..1 positionals, *tuple-literal of length 0 / 2 or absent, per name: absent / keyword / key of the **dict-literal, one duplicated name",
              "unknown": "0..3 positionals, keyword presence, *args: tuple[int, ...] and/or **kwargs: dict[str, int]; expansions enumerated up to length 4 / all subsets of names",
              "typeddict": "0..2 positionals, **td with every name absent / required / NotRequired; expansions = subsets of the NotRequired keys"},
    "thorough": {"signatures": "<= 4 parameters", "plain": "0..5 positionals", "literals": "same", "unknown": "same"},
}
OUTSIDE = ["extraction of the signature from runtime objects (arg_spec)", "ParamSpec and the ELLIPSIS parameter kind",
           "PossibleArg / PosOrKeyword labels (produced by the visitor for non-literal dict unpacking)", "the text of the message"]
STUBS = ["_CanAssignBasedContext with the real Checker collects the errors"]
ASSUMPTIONS = ["the oracle is CPython itself: a def generated from the enumerated spec is really called with the concrete shape of each path (E3 checks the def has the spec's kinds/defaults and records where inspect.Signature.bind deviates)"]

K = ParameterKind
NAMES4 = ["a", "b", "c", "d"]

_SIG: Optional[Signature] = None
_ISIG: Optional[inspect.Signature] = None
_FN = None
_NAMES: List[str] = []


def _mk(spec):
    """spec: list of (name, kind value, has_default)"""
    params = [SigParameter(n, K(k), default=KnownValue(1) if d else None) for n, k, d in spec]
    sig = Signature.make(params, AnyValue(AnySource.explicit))
    isig = inspect.Signature([
        inspect.Parameter(n, inspect._ParameterKind(k), default=1 if d else inspect.Parameter.empty)
        for n, k, d in spec
    ])
    return sig, isig


def prepare(template, data):
    global _SIG, _ISIG, _NAMES, _FN
    install_coarse_hash()
    get_checker()
    _SIG, _ISIG = _mk(data["spec"])
    ns: Dict = {}
    exec(_def_source(data["spec"]), ns)
    _FN = ns["f"]
    _NAMES = [n for n, k, d in data["spec"] if k in (0, 1, 3)] + ["zz"]


def _def_source(spec) -> str:
    parts = []
    prev = None
    for nm, k, d in spec:
        if prev == 0 and k != 0:
            parts.append("/")
        if k == 3 and prev not in (2, 3):
            parts.append("*")
        parts.append({2: "*" + nm, 4: "**" + nm}.get(k, nm + ("=1" if d else "")))
        prev = k
    if prev == 0:
        parts.append("/")
    return f"def f({', '.join(parts)}): return 1"


def _binds(pos: int, kw: List[str]) -> bool:
    """CPython itself: call the generated def with this concrete shape.  (inspect.Signature.bind
    of 3.12 wrongly rejects a positional-only name passed by keyword into **kwargs - found by E3 -
    so it is used only where E3 shows agreement: nowhere; the real call is the oracle.)"""
    try:
        _FN(*([0] * pos), **{k: 0 for k in kw})
        return True
    except TypeError:
        return False


def _py_accepts(args) -> bool:
    ctx = _CanAssignBasedContext(get_checker())
    actual = preprocess_args(args, ctx)
    if actual is None:
        return False
    bound = _SIG.bind_arguments(actual, ctx)
    return bound is not None


def _sel(x, n):
    """total selector: values outside 0..n-1 select 0 (no precondition)"""
    for i in range(1, n):
        if x == i:
            return i
    return 0


def h05_plain(npos: int, k0: bool, k1: bool, k2: bool, k3: bool, k4: bool) -> bool:
    """
    post: _
    """
    if excluded(npos=npos, k0=k0, k1=k1, k2=k2, k3=k3, k4=k4):
        return skip()
    n = _sel(npos, G.case["maxpos"] + 1)
    kws = [nm for nm, f in zip(_NAMES, (k0, k1, k2, k3, k4)) if f]
    args = [(Composite(KnownValue(i)), None) for i in range(n)]
    args += [(Composite(KnownValue(0)), nm) for nm in kws]
    return fin(_py_accepts(args) == _binds(n, kws))


def h05_lits(npos: int, star: int, m0: int, m1: int, m2: int, m3: int, m4: int, dup: bool) -> bool:
    """
    post: _
    """
    if excluded(npos=npos, star=star, m0=m0, m1=m1, m2=m2, m3=m3, m4=m4, dup=dup):
        return skip()
    n = _sel(npos, 2)
    st = (-1, 0, 2)[_sel(star, 3)]  # -1 absent, else length of the *tuple literal
    modes = [_sel(m, 3) for m in (m0, m1, m2, m3, m4)[: len(_NAMES)]]  # 0 absent, 1 keyword, 2 dict-literal key
    kws = [nm for nm, m in zip(_NAMES, modes) if m == 1]
    dkeys = [nm for nm, m in zip(_NAMES, modes) if m == 2]
    if dup and kws:
        dkeys = dkeys + [kws[0]]  # the same name as explicit keyword and as **{...} key
    args = [(Composite(KnownValue(i)), None) for i in range(n)]
    if st >= 0:
        args.append((Composite(KnownValue(tuple(range(st)))), ARGS))
    args += [(Composite(KnownValue(0)), nm) for nm in kws]
    if dkeys:
        args.append((Composite(KnownValue({k: 0 for k in dkeys})), KWARGS))
    py = _py_accepts(args)
    if dup and kws:
        c_ok = False  # TypeError: got multiple values for keyword argument
    else:
        c_ok = _binds(n + max(st, 0), kws + dkeys)
    return fin(py == c_ok)


def h05_unknown(npos: int, k0: bool, k1: bool, k2: bool, k3: bool, k4: bool, ua: bool, uk: bool, nafter: int = 0) -> bool:
    """
    post: _
    """
    if not ua and not uk:
        return skip()
    n = _sel(npos, 4)
    # positionals written after the star-argument: f(0, *xs, 1, 2)
    m = _sel(nafter, 3) if ua else 0
    if not ua and nafter != 0:
        return skip()
    kws = [nm for nm, f in zip(_NAMES, (k0, k1, k2, k3, k4)) if f]
    args = [(Composite(KnownValue(i)), None) for i in range(n)]
    if ua:
        args.append((Composite(GenericValue(tuple, [TypedValue(int)])), ARGS))
        args += [(Composite(KnownValue(100 + i)), None) for i in range(m)]
    args += [(Composite(KnownValue(0)), nm) for nm in kws]
    if uk:
        args.append((Composite(GenericValue(dict, [TypedValue(str), TypedValue(int)])), KWARGS))
    py = _py_accepts(args)
    # feature used by known finding C05-K1: an unknown-length *args is followed by a keyword naming a
    # positional-or-keyword parameter that the *args could also reach
    spec = G.case["spec"]
    pk_after = [nm for i, (nm, k, d) in enumerate(spec) if k == 1 and i >= n]
    feat_star_kw = bool(ua) and any(kw in pk_after for kw in kws)
    if excluded(feat_star_kw=feat_star_kw, rejected=not py, npos=npos, ua=ua, uk=uk):
        return skip()
    n = n + m
    free = [nm for nm in _NAMES if nm not in kws]
    some = False  # some expansion binds
    some_nonempty = False  # some expansion taking >= 1 element from every star argument binds
    lens = range(0, 5) if ua else [0]
    subsets = [[]]
    if uk:
        subsets = []
        for r in range(0, len(free) + 1):
            for comb in itertools.combinations(free, r):
                subsets.append(list(comb))
    for L in lens:
        for sub in subsets:
            if _binds(n + L, kws + sub):
                some = True
                if (not ua or L >= 1) and (not uk or len(sub) >= 1):
                    some_nonempty = True
    if py and not some and excluded(feat_pos_after_star=(m > 0), accepted_unbindable=True, npos=npos, ua=ua, uk=uk):
        # known finding C05-K2: positionals written after a star-argument are not counted
        return skip()
    if py:
        return fin(some)
    return fin(not some_nonempty)


def h05_td(npos: int, m0: int, m1: int, m2: int, m3: int, m4: int) -> bool:
    """
    post: _
    """
    # f(*positionals, **td) where td is a TypedDict: each candidate name is absent from it, a required key
    # or a NotRequired key.  Expansions = every choice of which NotRequired keys are present.
    from pyanalyze.value import TypedDictEntry, TypedDictValue

    n = _sel(npos, 3)
    modes = [_sel(m, 3) for m in (m0, m1, m2, m3, m4)[: len(_NAMES)]]  # 0 absent, 1 required, 2 not required
    req = [nm for nm, m in zip(_NAMES, modes) if m == 1]
    opt = [nm for nm, m in zip(_NAMES, modes) if m == 2]
    td = TypedDictValue({**{k: TypedDictEntry(TypedValue(int), required=True) for k in req},
                         **{k: TypedDictEntry(TypedValue(int), required=False) for k in opt}})
    args = [(Composite(KnownValue(i)), None) for i in range(n)]
    args.append((Composite(td), KWARGS))
    py = _py_accepts(args)
    some = False
    every = True
    for r in range(0, len(opt) + 1):
        for comb in itertools.combinations(opt, r):
            if _binds(n, req + list(comb)):
                some = True
            else:
                every = False
    feat_optional_to_required = False
    if excluded(feat=feat_optional_to_required, accepted=py, some=some, every=every):
        return skip()
    if py:
        return fin(some)  # accepted only if some expansion binds
    return fin(not every)  # rejected only if some expansion fails to bind


# --------------------------------------------------------------------------------------


def _specs(maxparams: int):
    """All parameter lists inspect.Signature accepts, up to maxparams parameters."""
    out = []
    for n in range(0, maxparams + 1):
        for kinds in itertools.product([0, 1, 2, 3, 4], repeat=n):
            if list(kinds) != sorted(kinds):
                continue
            if kinds.count(2) > 1 or kinds.count(4) > 1:
                continue
            for defaults in itertools.product([0, 1], repeat=n):
                ok = True
                seen_default = False
                for k, d in zip(kinds, defaults):
                    if k in (2, 4) and d:
                        ok = False
                    if k in (0, 1):
                        if d:
                            seen_default = True
                        elif seen_default:
                            ok = False
                if not ok:
                    continue
                names = []
                ni = 0
                for k in kinds:
                    if k == 2:
                        names.append("args")
                    elif k == 4:
                        names.append("kwargs")
                    else:
                        names.append(NAMES4[ni])
                        ni += 1
                out.append([[nm, k, d] for nm, k, d in zip(names, kinds, defaults)])
    return out


def _slabel(spec):
    sym = {0: "/", 1: "", 2: "*", 3: "!", 4: "**"}
    return ",".join(f"{sym[k]}{n}{'=' if d else ''}" for n, k, d in spec) or "()"


def pre_run(tier: str, seed: int):
    """E3: inspect.Signature.bind agrees with really calling a generated def (quick signature set)."""
    import time

    t0 = time.time()
    n = 0
    bad = []
    for spec in _specs(3):
        parts = []
        prev = None
        for nm, k, d in spec:
            if prev == 0 and k != 0:
                parts.append("/")
            if k == 3 and prev not in (2, 3):
                parts.append("*")
            parts.append({2: "*" + nm, 4: "**" + nm}.get(k, nm + ("=1" if d else "")))
            prev = k
        if prev == 0:
            parts.append("/")
        src = f"def f({', '.join(parts)}): return 1"
        ns: Dict = {}
        exec(src, ns)
        f = ns["f"]
        isig = _mk(spec)[1]
        names = [nm for nm, k, d in spec if k in (0, 1, 3)] + ["zz"]
        for pos in range(0, 4):
            for r in range(0, len(names) + 1):
                for kw in itertools.combinations(names, r):
                    try:
                        isig.bind(*([0] * pos), **{k: 0 for k in kw})
                        a = True
                    except TypeError:
                        a = False
                    try:
                        f(*([0] * pos), **{k: 0 for k in kw})
                        b = True
                    except TypeError:
                        b = False
                    n += 1
                    if a != b:
                        bad.append((src, pos, kw, a, b))
    extra = {"e3": {"inspect_bind_vs_real_call": {"compared": n, "disagreements": bad[:5]}}, "e3_validated": n,
             "wall_s": time.time() - t0, "harness_errors": []}
    # The oracle is the real call; E3 documents where inspect.Signature.bind (3.12) deviates from it and
    # checks that the generated def has exactly the parameter kinds/defaults of the enumerated spec.
    for spec in _specs(3):
        ns2: Dict = {}
        exec(_def_source(spec), ns2)
        got = [(p.name, int(p.kind), p.default is not inspect.Parameter.empty) for p in inspect.signature(ns2["f"]).parameters.values()]
        if got != [(nm, k, bool(d)) for nm, k, d in spec]:
            extra["harness_errors"].append(f"E3: generated def does not match its spec: {spec} vs {got}")
    print(f"  E3: inspect.bind vs real call on {n} (signature, shape) pairs: {len(bad)} disagreements")
    return extra


def cases(tier: str, seed: int) -> List[Case]:
    out: List[Case] = []
    quick = tier == "quick"
    specs = _specs(3 if quick else 4)
    for idx, spec in enumerate(specs):
        lab = _slabel(spec)
        nparams = len(spec)
        data = {"spec": spec, "maxpos": 4 if quick else 5}
        tw = idx % 6 == 0
        if quick and nparams == 3 and (idx + seed) % 2 != 0:
            continue
        if (not quick) and nparams == 4 and (idx + seed) % 3 != 0:
            continue
        out.append(Case("h05_plain", f"plain:{lab}", data, timeout=60 if quick else 180, twin=tw))
        if (not quick) or nparams <= 2 or (idx + seed) % 8 == 0:
            out.append(Case("h05_lits", f"lits:{lab}", data, timeout=150 if quick else 600, twin=tw))
        if (not quick) or nparams <= 2 or (idx + seed) % 4 == 1:
            out.append(Case("h05_td", f"td:{lab}", data, timeout=150 if quick else 600, twin=tw))
        if (not quick) or nparams <= 2 or (idx + seed) % 4 == 2:
            out.append(Case("h05_unknown", f"unk:{lab}", data, timeout=150 if quick else 600, twin=tw))
    return out
