"""C11 - suppression and enabling are a pure projection of the diagnostics.

The real `BaseNodeVisitor.show_error` ignore logic, `has_file_level_ignore`, `get_unused_ignores`,
`show_errors_for_unused_ignores`, `show_errors_for_bare_ignores` and `is_enabled` run on a
BaseNodeVisitor subclass with a four-member error enum whose names contain one another
(`aa` inside `aab` and `baa`), so that matching by substring instead of by whole code shows up.

Structure: the file (<= 4 lines out of 9 line kinds).  Solver variables: line number and code of up
to two diagnostics, the disabled set, and the text between `[` and `]` of a coded ignore comment
(a symbolic string) / the characters following a bare one.
"""

from __future__ import annotations

import enum
import itertools
import types
from typing import List, Optional, Tuple

from pyanalyze import node_visitor
from pyanalyze.node_visitor import IGNORE_COMMENT, BaseNodeVisitor, _FakeNode

from vf.engine import Case
from vf.g import G, excluded, fin, skip

ID = "C11"
FUNCTIONS_ENCODED = [
    "pyanalyze.node_visitor.BaseNodeVisitor.show_error (enable check, file-level ignore, per-line ignore, duplicate filter)",
    "pyanalyze.node_visitor.BaseNodeVisitor.has_file_level_ignore",
    "pyanalyze.node_visitor.BaseNodeVisitor.get_unused_ignores",
    "pyanalyze.node_visitor.BaseNodeVisitor.show_errors_for_unused_ignores",
    "pyanalyze.node_visitor.BaseNodeVisitor.show_errors_for_bare_ignores",
    "pyanalyze.node_visitor.BaseNodeVisitor.is_enabled",
    "pyanalyze.node_visitor.BaseNodeVisitor.catch_errors / show_caught_errors (record while probing, filter on re-emission)",
]
BOUNDS = {
    "quick": {"file": "<= 3 lines over 9 line kinds", "diagnostics": "<= 2, symbolic (line, code)",
              "disabled_set": "symbolic enabled flag for each diagnostic's code", "comment_code_text": "symbolic choice among 4 texts (aa, aab - contains aa -, zz, a comma list); 3 tails after a bare comment",
              "line_boundaries": "first line optionally ending in one of 8 characters that str.splitlines() splits at and the tokenizer does not (symbolic selector)"},
    "thorough": {"file": "<= 4 lines over 9 line kinds", "diagnostics": "<= 2, symbolic (line, code)",
                 "disabled_set": "symbolic enabled flag for each diagnostic's code", "comment_code_text": "symbolic choice among 4 texts (aa, aab - contains aa -, zz, a comma list); 3 tails after a bare comment"},
}
OUTSIDE = ["which visitor code paths probe under catch_errors (binary operators, overloads) and what they do with the list", "command-line parsing",
           "how NameCheckVisitor chooses the node (line) a diagnostic is attached to"]
STUBS = ["sys.stderr of node_visitor replaced by a sink (show_error prints the message)"]
ASSUMPTIONS = ["the projection oracle is the rule list of the property statement (35 lines)"]


class EC(enum.Enum):
    aa = 1
    aab = 2
    baa = 3
    unused_ignore = 4
    bare_ignore = 5


CODES = [EC.aa, EC.aab, EC.baa]


class _Sink:
    def write(self, s):
        return None

    def flush(self):
        return None


class TV(BaseNodeVisitor):
    error_code_enum = EC

    def visit(self, node):
        return None


def prepare(template, data):
    shim = types.SimpleNamespace(**{k: getattr(node_visitor.sys, k) for k in ("version_info", "argv", "modules", "path")})
    shim.stderr = _Sink()
    shim.stdout = _Sink()
    node_visitor.sys = shim


# line kinds ---------------------------------------------------------------------------
# C   code line                          x = 1
# CB  code + trailing bare ignore        x = 1  # static analysis: ignore<tail>
# CK  code + trailing coded ignore       x = 1  # static analysis: ignore[<text>]
# OB  own-line bare ignore               # static analysis: ignore
# OK  own-line coded ignore              # static analysis: ignore[<text>]
# IK  indented own-line coded ignore         # static analysis: ignore[<text>]
# IC  indented code line                     y = 2
# M   ordinary comment                   # hello
# E   empty line
# CP  code + ordinary comment ending in a pad character      x = 1  # n<pad>
# MP  ordinary comment ending in a pad character             # hello<pad>
#     <pad> is picked by a symbolic selector from characters that str.splitlines() treats as line
#     boundaries but the Python tokenizer does not (the AST's line numbers count only \n, \r\n, \r)
KINDS = ["C", "CB", "CK", "OB", "OK", "IK", "IC", "M", "E"]
CODE_KINDS = ("C", "CB", "CK", "IC", "CP", "CS")
PADS = ["", "\x0c", "\x0b", "\x1c", "\x1d", "\x1e", "\x85", "\u2028", "\u2029"]


def _validate_pads() -> None:
    """the tokenizer's view, checked against CPython: a pad character inside a comment starts no new line"""
    import ast as _ast

    for pad in PADS:
        tree = _ast.parse("x = 1  # n" + pad + "\n# hello" + pad + "\ny = 2\n")
        assert [st.lineno for st in tree.body] == [1, 3], repr(pad)


def _norm(kinds):
    # CS: a code line whose string literal contains the ignore text - not a comment, so an ordinary code line
    return [{"CP": "C", "MP": "M", "CS": "C"}.get(k, k) for k in kinds]


def _line(kind: str, text: str, tail: str, pad: str = "") -> str:
    if kind == "C":
        return "x = 1"
    if kind == "CS":
        return 'x = "' + IGNORE_COMMENT + '"'
    if kind == "CP":
        return "x = 1  # n" + pad
    if kind == "MP":
        return "# hello" + pad
    if kind == "IC":
        return "    y = 2"
    if kind == "CB":
        return "x = 1  " + IGNORE_COMMENT + tail
    if kind == "CK":
        return "x = 1  " + IGNORE_COMMENT + "[" + text + "]"
    if kind == "OB":
        return IGNORE_COMMENT
    if kind == "OK":
        return IGNORE_COMMENT + "[" + text + "]"
    if kind == "IK":
        return "    " + IGNORE_COMMENT + "[" + text + "]"
    if kind == "M":
        return "# hello"
    if kind == "E":
        return ""
    raise AssertionError(kind)


# oracle ---------------------------------------------------------------------------------


def _comment_of(kind: str, text: str, tail: str):
    """(has_comment, form, names) for a line: form 'bare' / 'coded' / 'other'."""
    if kind in ("CB", "OB"):
        t = tail if kind == "CB" else ""
        if t[:1] == "[":
            return True, "other", None
        return True, "bare", None
    if kind in ("CK", "OK", "IK"):
        return True, "coded", text
    return False, None, None


def _covers_trailing(kind, text, tail, code) -> bool:
    has, form, name = _comment_of(kind, text, tail)
    if not has or kind not in ("CB", "CK"):
        return False
    if form == "bare":
        return True
    if form == "coded":
        return name == code.name
    return False


def _covers_ownline(kind, text, code) -> bool:
    if kind == "OB":
        return True
    if kind in ("OK", "IK"):
        return text == code.name
    return False


def _file_level(kinds, text, code) -> Optional[int]:
    """index of the leading comment line that makes the whole file ignored for `code`, or None"""
    for i, k in enumerate(kinds):
        if k not in ("OB", "OK", "M"):
            return None  # a line that does not start with '#'
        if k == "OB":
            return i
        if k == "OK" and text == code.name:
            return i
    return None


def oracle(kinds, text, tail, diags, disabled):
    """-> (reported set of (line, code), for each comment line: covered-by-it set)"""
    reported = set()
    covered = {i: [] for i, k in enumerate(kinds) if _comment_of(k, text, tail)[0]}
    for (ln, code) in diags:
        if code in disabled:
            continue
        fl = _file_level(kinds, text, code)
        if fl is not None:
            covered[fl].append((ln, code, "file"))
            continue
        k = kinds[ln - 1]
        hit = False
        if _covers_trailing(k, text, tail, code):
            covered[ln - 1].append((ln, code, "trailing"))
            hit = True
        if ln >= 2 and _covers_ownline(kinds[ln - 2], text, code):
            covered[ln - 2].append((ln, code, "ownline"))
            hit = True
        if not hit:
            reported.add((ln, code))
    return reported, covered


# harness --------------------------------------------------------------------------------


def _alpha_ok(s: str, n: int) -> bool:
    if len(s) > n:
        return False
    for ch in s:
        if ch not in "abz":
            return False
    return True


TEXTS = ["aa", "aab", "zz", "aa,aab"]
TAILS = ["", " b", "[a"]


def h11(l1: int, c1: int, l2: int, c2: int, e1: bool, e2: bool, tsel: int, ssel: int, psel: int = 0) -> bool:
    """
    post: _
    """
    file_kinds = G.case["kinds"]
    if excluded(l1=l1, c1=c1, l2=l2, c2=c2, e1=e1, e2=e2, tsel=tsel, ssel=ssel, feat_string_ignore=("CS" in file_kinds)):
        return skip()
    kinds = _norm(file_kinds)
    pad = PADS[0]
    if any(k in ("CP", "MP") for k in file_kinds):
        for i in range(1, len(PADS)):
            if psel == i:
                pad = PADS[i]
                break
    two = G.case["two"]
    n = len(kinds)
    uses_text = any(k in ("CK", "OK", "IK") for k in kinds)
    uses_tail = any(k == "CB" for k in kinds)
    # The text between the brackets of a coded comment and the characters after a bare trailing one
    # are picked by symbolic selectors from short lists (symbolic strings make the regex search in
    # show_error too slow for CrossHair: 25 paths per minute).
    text = TEXTS[0]
    if uses_text:
        for i in range(1, len(TEXTS)):
            if tsel == i:
                text = TEXTS[i]
                break
    tail = TAILS[0]
    if uses_tail:
        for i in range(1, len(TAILS)):
            if ssel == i:
                tail = TAILS[i]
                break
    if not (1 <= l1 <= n) or not (0 <= c1 <= 2):
        return skip()
    if kinds[l1 - 1] not in CODE_KINDS:
        return skip()  # AST nodes sit on code lines
    diags = [(l1, CODES[c1])]
    if two:
        if not (1 <= l2 <= n) or not (0 <= c2 <= 2):
            return skip()
        if kinds[l2 - 1] not in CODE_KINDS:
            return skip()
        diags.append((l2, CODES[c2]))
    # enabled flags: e1 for the first diagnostic's code, e2 for the second's (when it is a different
    # code); codes that no diagnostic uses are enabled
    disabled = set()
    settings = {code: True for code in CODES}
    settings[diags[0][1]] = e1
    if not e1:
        disabled.add(diags[0][1])
    if two and diags[1][1] is not diags[0][1]:
        settings[diags[1][1]] = e2
        if not e2:
            disabled.add(diags[1][1])
    settings[EC.unused_ignore] = True
    settings[EC.bare_ignore] = True
    lines = [_line(k, text if uses_text else "", tail if uses_tail else "", pad) for k in file_kinds]
    contents = "\n".join(lines) + "\n"
    vis = TV("f.py", contents, None, settings=settings)
    got = set()
    if G.case.get("caught"):
        # Diagnostics raised while a caller is probing (catch_errors) are recorded whatever the
        # enabled set is - callers use the list as a "did this attempt typecheck" signal, so a disabled
        # code must not change it - and filtering happens when they are re-emitted.
        with vis.catch_errors() as caught:
            for (ln, code) in diags:
                if vis.show_error(_FakeNode(ln, 0), error_code=code) is not None:
                    return fin(False)
        if len(caught) != len(diags) or vis.all_failures:
            return fin(False)
        vis.show_caught_errors(caught)
        for f in vis.all_failures:
            got.add((f.get("lineno"), f.get("code")))
    else:
        for (ln, code) in diags:
            f = vis.show_error(_FakeNode(ln, 0), error_code=code)
            if f is not None:
                if f.get("lineno") != ln or f.get("code") is not code:
                    return fin(False)
                got.add((ln, code))
    want, covered = oracle(kinds, text, tail, diags, disabled)
    if got != want:
        return fin(False)
    if len(vis.all_failures) != len(got):
        return fin(False)
    # unused ignores: a comment that covers nothing must be listed; one that is the only cover of
    # some diagnostic must not be (two comments covering the same diagnostic: either may be "used")
    unused = set(i for i, _ in vis.get_unused_ignores())
    for i, cov in covered.items():
        if not cov:
            if i not in unused:
                return fin(False)
        else:
            sole = False
            for (ln, code, how) in cov:
                others = [j for j, cv in covered.items() if j != i and any(c[0] == ln and c[1] is code for c in cv)]
                if not others:
                    sole = True
            if sole and i in unused:
                return fin(False)
    for i in unused:
        if i not in covered:
            return fin(False)  # a line without an ignore comment reported as unused ignore
    # reporting of unused / bare ignores (these must not be suppressible by the comment itself)
    before = len(vis.all_failures)
    vis.show_errors_for_unused_ignores(EC.unused_ignore)
    new = vis.all_failures[before:]
    # a bare file-level ignore suppresses the whole file, the unused_ignore reports included
    want_unused = [] if _file_level_bare(kinds) else sorted(unused)
    if sorted(f["lineno"] - 1 for f in new) != want_unused:
        return fin(False)
    before = len(vis.all_failures)
    vis.show_errors_for_bare_ignores(EC.bare_ignore)
    new = vis.all_failures[before:]
    file_bare = len(kinds) > 0 and _file_level_bare(kinds)
    want_bare = [] if file_bare else [i for i, k in enumerate(kinds) if _is_bare_line(k, tail if uses_tail else "")]
    if sorted(f["lineno"] - 1 for f in new) != want_bare:
        return fin(False)
    return fin(True)


def _is_bare_line(kind, tail) -> bool:
    if kind == "OB":
        return True
    if kind == "CB":
        return tail[:1] != "["
    return False


def _file_level_bare(kinds) -> bool:
    for k in kinds:
        if k not in ("OB", "OK", "M"):
            return False
        if k == "OB":
            return True
    return False


def cases(tier: str, seed: int) -> List[Case]:
    out: List[Case] = []
    quick = tier == "quick"
    maxn = 3 if quick else 4
    counter = [0]
    _validate_pads()
    # files whose first line ends in a pad character (see CP / MP above), followed by one or two ordinary lines
    import zlib as _z

    for first in ("CP", "MP"):
        for n in (1, 2):
            for rest in itertools.product(KINDS, repeat=n):
                kinds = (first,) + rest
                if not any(k in CODE_KINDS for k in kinds):
                    continue
                if not any(k in ("CB", "CK", "OB", "OK", "IK") for k in rest):
                    continue
                lab = "/".join(kinds)
                if n == 2 and (_z.crc32(lab.encode()) + seed) % (8 if quick else 2) != 0:
                    continue
                out.append(Case("h11", lab, {"kinds": list(kinds), "two": False}, timeout=90 if quick else 240, twin=True))
    for kinds in (("CS",), ("C", "CS"), ("CS", "C")):
        out.append(Case("h11", "/".join(kinds), {"kinds": list(kinds), "two": False}, timeout=90, twin=True, vacuous_ok=True))
    for n in range(1, maxn + 1):
        for kinds in itertools.product(KINDS, repeat=n):
            if not any(k in CODE_KINDS for k in kinds):
                continue
            ncomments = sum(1 for k in kinds if k in ("CB", "CK", "OB", "OK", "IK"))
            if ncomments == 0 and n > 1:
                continue
            if n == 4:
                # thorough only: at most two comment lines, no blank/plain-comment filler pairs, a tenth of them
                if ncomments > 2 or sum(1 for k in kinds if k in ("M", "E")) > 1:
                    continue
                import zlib
                if (zlib.crc32("/".join(kinds).encode()) + seed) % 10 != 0:
                    continue
            if n == 3 and quick and sum(1 for k in kinds if k in ("M", "E")) > 1:
                continue
            lab = "/".join(kinds)
            counter[0] += 1
            idx = counter[0]
            if quick and n == 3 and (idx + seed) % 10 != 0:
                continue  # quick: a seed-rotated third of the 3-line files (all of them in thorough)
            out.append(Case("h11", lab, {"kinds": list(kinds), "two": False}, timeout=60 if quick else 240, twin=True))
            take_two = (n <= 2) or ((not quick) and (idx + seed) % 3 == 0 and n == 3)
            if take_two:
                out.append(Case("h11", lab + ":2", {"kinds": list(kinds), "two": True}, timeout=150 if quick else 300,
                                twin=(idx % 5 == 0)))
            if n <= 2 and (n == 1 or idx % 3 == 0 or not quick):
                # the same diagnostics raised under catch_errors() and re-emitted
                out.append(Case("h11", lab + ":caught", {"kinds": list(kinds), "two": n == 2, "caught": True},
                                timeout=150 if quick else 300, twin=(idx % 5 == 0)))
    return out
