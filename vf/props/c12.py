"""C12 - totality, *value-API half only*: assignability, union and substitution operations return a
result instead of raising, for every pair of well-formed values of the shared vocabularies and every
payload.  The first half of the property (the checker never crashes on any module) quantifies over
programs and runs through NameCheckVisitor, which cannot be executed symbolically here - it is NOT
covered by this check (DESIGN.md sections 6 and 10.10).

An exception escaping any of the calls below is reported by CrossHair as a counterexample of the
harness; the returned objects are only checked to have the documented result type.
"""

from __future__ import annotations

import itertools
import zlib
from typing import List, TypeVar

from pyanalyze.value import (
    CanAssignError,
    KnownValue,
    MultiValuedValue,
    TypedValue,
    Value,
    is_overlapping,
    unite_values,
)

from vf import member as M
from vf.common import get_checker, install_coarse_hash
from vf.engine import Case
from vf.g import G, excluded, fin, skip
from vf.props import c14

ID = "C12"
FUNCTIONS_ENCODED = [
    "Value.can_assign / is_assignable of KnownValue, TypedValue, GenericValue, SequenceValue, DictIncompleteValue, TypedDictValue, AnnotatedValue, SubclassValue, TypeVarValue, MultiValuedValue, AnyValue",
    "pyanalyze.value.unite_values / flatten_values / annotate_value", "substitute_typevars / simplify / get_type_value / walk_values of the same classes",
    "pyanalyze.value.is_overlapping / can_overlap",
]
BOUNDS = {
    "quick": {"values": "unions of 11-12 literals, unhashable list / dict / set literals, the 20 shapes of C14 and the ~110 depth-1 type expressions of vf/member.py; a rotating tenth of the ordered pairs", "payloads": "ints in [0, 1] (KnownValue.substitute_typevars realises its payload)"},
    "thorough": {"values": "same; a third of the ordered pairs", "payloads": "same"},
}
OUTSIDE = ["THE FIRST HALF OF THE PROPERTY: checking any syntactically valid module terminates without raising and without internal_error, with well-formed diagnostics - needs the visitor",
           "callables, protocols, synthetic types (need the visitor's signature / attribute machinery)"]
STUBS = ["coarse-hash stub"]
ASSUMPTIONS = ["'well-formed value' = a value the vocabularies of C14 / vf/member.py can build"]

T = c14.T


def prepare(template, data):
    get_checker()
    install_coarse_hash()
    saved = G.case
    G.case = data
    try:
        h12(0, 1, True)
    finally:
        G.case = saved


def _build(spec, p, q, f):
    if spec[0] == "c14":
        return c14.mk(spec[1], p)
    if spec[0] == "c12":
        k = spec[1]
        if k == "big10":  # a union large enough for the literal fast path of MultiValuedValue.can_assign (>= 10 members)
            return MultiValuedValue([KnownValue(p)] + [KnownValue(i) for i in range(2, 12)])
        if k == "big10s":
            return MultiValuedValue([KnownValue(p), TypedValue(str)] + [KnownValue(i) for i in range(2, 12)])
        if k == "ulist":  # unhashable literals
            return KnownValue([p])
        if k == "udict":
            return KnownValue({"a": p})
        if k == "uset":
            return KnownValue({0})
        raise AssertionError(k)
    t = M.instantiate(spec[1], (p, q), (f, not f))
    return M.to_value(t)


def h12(p0: int, q0: int, f0: bool) -> bool:
    """
    post: _
    """
    if excluded(p0=p0, q0=q0, f0=f0):
        return skip()
    if not (0 <= p0 <= 1) or not (0 <= q0 <= 1):
        return skip()  # KnownValue.substitute_typevars calls callable(val), which realises the payload
    data = G.case
    a = _build(data["a"], p0, p0, f0)
    b = _build(data["b"], q0, q0, not f0)
    ctx = get_checker()
    ok = True
    for x, y in ((a, b), (b, a)):
        r = x.can_assign(y, ctx)
        ok = ok and (isinstance(r, (dict, CanAssignError)))
        with ctx.set_exclude_any():
            r2 = x.can_assign(y, ctx)
        ok = ok and isinstance(r2, (dict, CanAssignError))
    u = unite_values(a, b)
    ok = ok and isinstance(u, Value)
    for v in (a, b, u):
        ok = ok and isinstance(v.substitute_typevars({T: TypedValue(int)}), Value)
    return fin(ok)


def cases(tier: str, seed: int) -> List[Case]:
    quick = tier == "quick"
    vals = [("c14", s) for s in c14.SHAPES if s != "ulit"]
    vals += [("m", t) for t in M.depth1(M.LEAVES, M.P0, M.F0)]
    own = [("c12", k) for k in ("big10", "big10s", "ulist", "udict", "uset")]
    vals += own
    out: List[Case] = []
    for a, b in itertools.product(vals, repeat=2):
        la = ("s:" + a[1]) if a[0] in ("c14", "c12") else ("t:" + M.tname(a[1]))
        lb = ("s:" + b[1]) if b[0] in ("c14", "c12") else ("t:" + M.tname(b[1]))
        lab = f"{la}~{lb}"
        # large unions and unhashable literals against each other and against the small shapes: always
        pinned = (a in own and (b in own or b[0] == "c14")) or (b in own and a[0] == "c14")
        if not pinned and (zlib.crc32(lab.encode()) + seed) % (12 if quick else 2) != 0:
            continue
        out.append(Case("h12", lab, {"a": list(a), "b": list(b)}, timeout=60 if quick else 180,
                        twin=(zlib.crc32(lab.encode()) % 20 == 0)))
    return out
