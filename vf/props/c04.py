"""C04 - type-to-type assignability is reflexive and sound for membership.

H04a (laws, all hierarchies): leaves are stub atoms whose mutual assignability is a *symbolic
      preorder* (constructive encoding, DESIGN.md section 2 item 3); unions, Never, Any, Annotated and
      the exclude-Any mode go through the real `Value.can_assign`, `MultiValuedValue.can_assign`,
      `AnyValue.can_assign`, `AnnotatedValue.can_assign / can_be_assigned`, `unite_values`,
      `Checker.set_exclude_any`.
H04b (soundness with the real constructors): `A accepts B and o in B  =>  o in A` for pairs (A, B)
      of static types from the shared vocabulary (vf/member.py) with symbolic payloads, thresholds,
      TypedDict flags and a symbolic witness object.
"""

from __future__ import annotations

import itertools
from typing import List, Protocol, TypeVar, runtime_checkable

from pyanalyze.value import (
    NO_RETURN_VALUE,
    AnnotatedValue,
    AnySource,
    AnyValue,
    CanAssignError,
    GenericValue,
    KnownValue,
    MultiValuedValue,
    TypedValue,
    Value,
    unite_values,
)

TP = TypeVar("TP", covariant=True)

from vf import member as M
from vf.common import Atom, Rel, TopAtom, get_checker, install_coarse_hash, ref_accepts
from vf.engine import Case
from vf.g import G, excluded, fin, skip

ID = "C04"
FUNCTIONS_ENCODED = [
    "pyanalyze.value.Value.can_assign", "pyanalyze.value.MultiValuedValue.can_assign", "pyanalyze.value.AnyValue.can_assign",
    "pyanalyze.value.AnnotatedValue.can_assign / can_be_assigned", "pyanalyze.value.unite_values / flatten_values",
    "pyanalyze.checker.Checker.set_exclude_any / should_exclude_any / record_any_used",
    "H04c: pyanalyze.type_object.TypeObject.can_assign (protocol branch, _protocol_positive_cache) / _is_compatible_with_protocol",
    "H04b: KnownValue / TypedValue / GenericValue / SequenceValue / TypedDictValue / SubclassValue / NewTypeValue .can_assign, "
    "pyanalyze.type_object.TypeObject.can_assign, pyanalyze.annotated_types.*.can_assign / is_compatible_metadata",
]
BOUNDS = {
    "quick": {"H04c": "one generic protocol (one method returning T), specializations int / bool / str / float / object x 3 implementing classes; histories of two queries from an empty cache (first structural, second symbolic)", "H04a": "3 atoms under every preorder (6 symbolic booleans) + a top atom; shapes atom / union of two atoms / Never / Any / Annotated[atom] / top; all pairs, a fifth of the triples",
              "H04b": "ordered pairs over the depth-1 vocabulary of vf/member.py (rotating third), payloads unbounded ints / thresholds unbounded / TypedDict flags symbolic"},
    "thorough": {"H04c": "histories of three queries", "H04a": "all pairs and triples", "H04b": "all ordered pairs of the depth-1 vocabulary and a sample of depth 2"},
}
OUTSIDE = ["protocols other than the one generic single-method family of H04c (structural check needs attribute lookup and typeshed)", "callables (C07)", "generic bases of user classes", "TypeVars (C15)",
           "documented leniencies: bare generic = G[Any], fixed tuple accepting a variadic tuple, mocks"]
STUBS = ["stub atoms with a symbolic preorder (assumes only reflexivity and transitivity between leaf types)", "coarse-hash stub (H04b)"]
ASSUMPTIONS = ["membership model vf/member.py (80 lines) written from the property statement"]

SHAPES_A = ["a0", "a1", "a2", "u01", "u12", "u20", "never", "any", "ann0", "ann1", "top"]


def _mk(shape: str, atoms, top):
    if shape[0] == "a" and shape[1:].isdigit():
        return atoms[int(shape[1:])]
    if shape[0] == "u":
        return MultiValuedValue([atoms[int(shape[1])], atoms[int(shape[2])]])
    if shape == "never":
        return NO_RETURN_VALUE
    if shape == "any":
        return AnyValue(AnySource.explicit)
    if shape.startswith("ann"):
        return AnnotatedValue(atoms[int(shape[3:])], [KnownValue("meta")])
    if shape == "top":
        return top
    raise AssertionError(shape)


def _ok(x) -> bool:
    return not isinstance(x, CanAssignError)


def _has_any(shape: str) -> bool:
    return shape == "any"


def h04_laws(b0: bool, b1: bool, b2: bool, b3: bool, b4: bool, b5: bool) -> bool:
    """
    post: _
    """
    if excluded(b0=b0, b1=b1, b2=b2, b3=b3, b4=b4, b5=b5):
        return skip()
    rel = Rel(3, (b0, b1, b2, b3, b4, b5))
    atoms = [Atom(i, rel) for i in range(3)]
    top = TopAtom()
    ctx = get_checker()
    shapes = G.case["shapes"]
    vals = [_mk(s, atoms, top) for s in shapes]
    A, B = vals[0], vals[1]
    sA, sB = shapes[0], shapes[1]
    acc = _ok(A.can_assign(B, ctx))
    # reflexive; Never accepted everywhere; top accepts everything
    if not _ok(A.can_assign(A, ctx)) or not _ok(B.can_assign(B, ctx)):
        return fin(False)
    if not _ok(A.can_assign(NO_RETURN_VALUE, ctx)):
        return fin(False)
    if not _ok(top.can_assign(B, ctx)):
        return fin(False)
    # Any is accepted by and accepts every type
    anyv = AnyValue(AnySource.explicit)
    if not _ok(A.can_assign(anyv, ctx)) or not _ok(anyv.can_assign(B, ctx)):
        return fin(False)
    # agreement with the reference acceptance over the relation
    if acc != ref_accepts(rel, A, B):
        return fin(False)
    # exclude-Any mode never turns a rejection into an acceptance
    with ctx.set_exclude_any():
        acc_ex = _ok(A.can_assign(B, ctx))
    if acc_ex and not acc:
        return fin(False)
    if not _has_any(sA) and not _has_any(sB) and acc_ex != acc:
        return fin(False)  # without Any on either side the mode changes nothing
    if len(vals) == 3:
        C = vals[2]
        bc = unite_values(B, C)
        acc_c = _ok(A.can_assign(C, ctx))
        # a union is accepted exactly when each member is
        if _ok(A.can_assign(bc, ctx)) != (acc and acc_c):
            return fin(False)
        if shapes[1] != "never" and shapes[2] != "never":
            # (a raw MultiValuedValue of two Nevers is an empty union that is not the canonical
            # NO_RETURN_VALUE object; unions are built with unite_values everywhere in pyanalyze)
            if _ok(A.can_assign(MultiValuedValue([B, C]), ctx)) != (acc and acc_c):
                return fin(False)
        # a union accepts whatever one of its members accepts
        ab = unite_values(A, B)
        if (acc_c or _ok(B.can_assign(C, ctx))) and not _ok(ab.can_assign(C, ctx)):
            return fin(False)
        if _ok(ab.can_assign(C, ctx)) != ref_accepts(rel, ab, C):
            return fin(False)
    return fin(True)


# ------------------------------------------------------------------------------ H04b


def prepare(template, data):
    get_checker()
    if template == "h04_proto":
        saved = G.case
        G.case = data
        try:
            for j in range(len(P_ARGS) * len(P_IMPLS)):
                h04_proto(j, 0)
        finally:
            G.case = saved
    if template == "h04_sound":
        install_coarse_hash()
        M.warm(data)


def h04_sound(p0: int, p1: int, q0: int, q1: int, f0: bool, f1: bool, f2: bool, f3: bool, oi: int, oj: int, s: str) -> bool:
    """
    post: _
    """
    data = G.case
    if len(s) > 2:
        return skip()
    ta = M.instantiate(data["A"], (p0, p1), (f0, f1))
    tb = M.instantiate(data["B"], (q0, q1), (f2, f3))
    o = M.make_object(data["okind"], oi, oj, s)
    if o is M.NO_OBJECT:
        return skip()
    A, B = M.to_value(ta), M.to_value(tb)
    ctx = get_checker()
    acc = _ok(A.can_assign(B, ctx))
    if excluded(akind=M.core_kind(ta), bkind=M.core_kind(tb), accepted=acc, p0=p0, q1=q1):
        return skip()
    # reflexivity on the real constructors
    if not _ok(A.can_assign(A, ctx)) or not _ok(B.can_assign(B, ctx)):
        return fin(False)
    if not acc:
        return fin(True, nontrivial=False)
    if not M.member(o, tb):
        return fin(True, nontrivial=False)
    return fin(M.member(o, ta))


# ------------------------------------------------------------------------------ H04c
# A generic protocol: one TypeObject (and its cache of earlier positive verdicts) serves every specialization, so the
# verdict of a pair must not depend on which pairs were decided before it.  The first query is the structural case,
# the later ones are chosen by symbolic selectors; every verdict is compared with the member-type reference.


@runtime_checkable
class Getter(Protocol[TP]):
    def get(self) -> TP:
        raise NotImplementedError


class GetInt:
    def get(self) -> int:
        return 0


class GetBool:
    def get(self) -> bool:
        return True


class GetStr:
    def get(self) -> str:
        return ""


P_ARGS = [int, bool, str, float, object]
P_IMPLS = [(GetInt, int), (GetBool, bool), (GetStr, str)]
P_INSTANCES = [GetInt(), GetBool(), GetStr()]


def _proto_ref(a: type, b: type) -> bool:
    if a is object or a is b:
        return True
    if a is int:
        return b is bool
    if a is float:
        return b in (int, bool)
    return False


def _sel(lst, i):
    for n, x in enumerate(lst):
        if i == n:
            return x
    raise AssertionError(i)


def _proto_query(q: int, ctx) -> bool:
    """one query; True when the verdict agrees with the reference"""
    # explicit forks: indexing a list of classes with a symbolic int gives CrossHair's SymbolicType proxy, which
    # is not identical to the class it stands for
    a = _sel(P_ARGS, q // len(P_IMPLS))
    impl, b = _sel(P_IMPLS, q % len(P_IMPLS))
    got = _ok(GenericValue(Getter, [TypedValue(a)]).can_assign(TypedValue(impl), ctx))
    if got != _proto_ref(a, b):
        return False
    # the same question about a concrete instance (a literal): isinstance() against a runtime-checkable protocol
    # only tests that the member exists, it must not override the structural verdict
    got_lit = _ok(GenericValue(Getter, [TypedValue(a)]).can_assign(KnownValue(_sel(P_INSTANCES, q % len(P_IMPLS))), ctx))
    return got_lit == _proto_ref(a, b)


def h04_proto(j: int, k: int) -> bool:
    """
    post: _
    """
    data = G.case
    n = len(P_ARGS) * len(P_IMPLS)
    if not (0 <= j < n and 0 <= k < n):
        return skip()
    ctx = get_checker()
    # the state every history starts from: nothing decided yet
    ctx.make_type_object(Getter)._protocol_positive_cache.clear()
    qs = [data["first"], j] + ([k] if data["depth"] >= 3 else [])
    for q in qs:
        if not _proto_query(q, ctx):
            return fin(False)
    return fin(True)


def cases(tier: str, seed: int) -> List[Case]:
    out: List[Case] = []
    quick = tier == "quick"
    for first in range(len(P_ARGS) * len(P_IMPLS)):
        a = P_ARGS[first // len(P_IMPLS)].__name__
        b = P_IMPLS[first % len(P_IMPLS)][1].__name__
        out.append(Case("h04_proto", f"proto:Getter[{a}]<-Get{b}:then{1 if quick else 2}", {"first": first, "depth": 2 if quick else 3},
                        timeout=90 if quick else 600, twin=True))
    for sa, sb in itertools.product(SHAPES_A, repeat=2):
        out.append(Case("h04_laws", f"laws:{sa},{sb}", {"shapes": [sa, sb]}, timeout=60, twin=(sa <= sb)))
    for idx, (sa, sb, sc) in enumerate(itertools.product(SHAPES_A, repeat=3)):
        if quick and (idx + seed) % 5 != 0:
            continue
        out.append(Case("h04_laws", f"laws:{sa},{sb},{sc}", {"shapes": [sa, sb, sc]}, timeout=90 if quick else 240,
                        twin=(idx % 25 == 0)))
    out += M.c04_cases(tier, seed)
    return out
