"""C14 - value algebra: unions form a semilattice; equality, hashing, substitution.

Real `unite_values`, `MultiValuedValue.__post_init__/__eq__/__hash__`, `KnownValue.__eq__/__hash__`,
`annotate_value`, `substitute_typevars` of every shape in the vocabulary and `can_assign` (for the
"accepts each operand" / "members are the members of the operands" laws).  The real hash functions
run (no coarse-hash stub): payloads are therefore bounded to a small range and that bound is stated.
"""

from __future__ import annotations

import itertools
from typing import List, TypeVar

from pyanalyze.annotated_types import Gt
from pyanalyze.value import (
    CallableValue,
    NO_RETURN_VALUE,
    AnnotatedValue,
    AnySource,
    AnyValue,
    CanAssignError,
    CustomCheckExtension,
    DictIncompleteValue,
    GenericValue,
    KnownValue,
    KVPair,
    MultiValuedValue,
    SequenceValue,
    SubclassValue,
    TypedDictEntry,
    TypedDictValue,
    TypedValue,
    TypeVarValue,
    Value,
    unite_values,
)

from vf.common import get_checker
from vf.engine import Case
from vf.g import G, excluded, fin, skip

ID = "C14"
FUNCTIONS_ENCODED = [
    "pyanalyze.value.unite_values", "pyanalyze.value.flatten_values", "pyanalyze.value.annotate_value",
    "pyanalyze.value.MultiValuedValue.__post_init__ / __eq__ / (generated) __hash__ / substitute_typevars / can_assign",
    "pyanalyze.value.KnownValue.__eq__ / __hash__",
    "substitute_typevars of KnownValue, TypedValue, GenericValue, SequenceValue, DictIncompleteValue, TypedDictValue, AnnotatedValue, SubclassValue, TypeVarValue",
    "pyanalyze.value.Value.can_assign (accepts-each-operand and membership laws)",
]
BOUNDS = {
    "quick": {"shapes": "18 value shapes; all ordered pairs; triples over 5 shapes",
              "payloads": "ints in [0, 1] plus True (1 == True); witness object int in [-1, 2], 'a', None; 14 of the 18 shapes",
              "typevar_map": "T -> int | Literal[payload] | str"},
    "thorough": {"shapes": "20 shapes; all pairs; half of the triples over 9 shapes", "payloads": "ints in [-1, 1] plus True / 1.0", "typevar_map": "same"},
}
OUTSIDE = ["protocols; assignability between callables (C07) - CallableValue takes part in the union / hash laws only", "payloads outside the stated range (hashing realises them)"]
STUBS = []
ASSUMPTIONS = ["membership of a witness object is pyanalyze's own acceptance of KnownValue(o): the law checked is consistency of uniting with acceptance, not an external membership model (that is C03)"]

T = TypeVar("T")


class A:
    pass


SHAPES = ["lit", "litb", "litf", "lits", "ulit", "int", "str", "gen", "seq", "dinc", "td", "ann", "sub", "tv", "u2", "utv", "never", "any",
          "annu", "annau", "gtv", "tdab", "tdba", "fn", "cbl1", "cbl2"]


def _helper_fn(a: int) -> int:
    return a


def mk(shape: str, x):
    """Build a value of the given shape with symbolic payload x."""
    if shape == "lit":
        return KnownValue(x)
    if shape == "litb":
        return KnownValue(x == 1)
    if shape == "litf":
        return KnownValue(1.0)
    if shape == "lits":
        return KnownValue("a")
    if shape == "ulit":
        return KnownValue([x])
    if shape == "int":
        return TypedValue(int)
    if shape == "str":
        return TypedValue(str)
    if shape == "gen":
        return GenericValue(list, [TypedValue(int)])
    if shape == "seq":
        return SequenceValue(tuple, [(False, KnownValue(x)), (True, TypedValue(str))])
    if shape == "dinc":
        return DictIncompleteValue(dict, [KVPair(KnownValue(x), TypedValue(int))])
    if shape == "td":
        return TypedDictValue({"a": TypedDictEntry(TypedValue(int))})
    if shape == "ann":
        return AnnotatedValue(TypedValue(int), [CustomCheckExtension(Gt(x))])
    if shape == "sub":
        return SubclassValue(TypedValue(A))
    if shape == "tv":
        return TypeVarValue(T)
    if shape == "u2":
        return MultiValuedValue([TypedValue(str), KnownValue(x)])
    if shape == "utv":
        return MultiValuedValue([TypeVarValue(T), TypedValue(int), TypedValue(str)])
    if shape == "annu":  # Annotated[int | Literal[x], m]: an annotated union (what annotate_value builds for a union)
        return AnnotatedValue(MultiValuedValue([TypedValue(int), KnownValue(x)]), [CustomCheckExtension(Gt(0))])
    if shape == "annau":  # an annotated union one of whose members is itself annotated
        return AnnotatedValue(MultiValuedValue([AnnotatedValue(TypedValue(int), [CustomCheckExtension(Gt(x))]), TypedValue(str)]),
                              [CustomCheckExtension(Gt(5))])
    if shape == "gtv":  # list[T] | list[int]: a type variable nested inside a member, no bare type-variable member
        return MultiValuedValue([GenericValue(list, [TypeVarValue(T)]), GenericValue(list, [TypedValue(int)]), KnownValue(None)])
    if shape in ("cbl1", "cbl2"):
        # the same callable type recorded for two different functions (Signature.callable is not part of equality)
        from pyanalyze.signature import ParameterKind, Signature, SigParameter

        sig = Signature.make([SigParameter("a", ParameterKind.POSITIONAL_OR_KEYWORD, annotation=TypedValue(int))], KnownValue(x),
                             callable=_helper_fn if shape == "cbl1" else None)
        return CallableValue(sig)
    if shape == "fn":  # a function literal: substitution wraps it in KnownValueWithTypeVars, which must stay the same value
        return KnownValue(_helper_fn)
    if shape == "tdab":  # the same two-key TypedDict written in two key orders: equal values
        return TypedDictValue({"a": TypedDictEntry(TypedValue(int)), "b": TypedDictEntry(KnownValue(x))})
    if shape == "tdba":
        return TypedDictValue({"b": TypedDictEntry(KnownValue(x)), "a": TypedDictEntry(TypedValue(int))})
    if shape == "never":
        return NO_RETURN_VALUE
    if shape == "any":
        return AnyValue(AnySource.explicit)
    raise AssertionError(shape)


HAS_TV = {"tv", "utv", "gtv"}


def prepare(template, data):
    """Warm the checker's caches (type objects, generic bases) outside tracing by running the
    harness once on concrete payloads."""
    get_checker()
    saved = G.case
    G.case = data
    try:
        for tsel in (0, 1, 2):
            if template == "h14_pair":
                h14_pair(0, 1, tsel, 0, 0)
                h14_pair(1, 0, 0, tsel, 1)
            else:
                h14_triple(0, 1, 1, tsel)
    finally:
        G.case = saved


def _nested(v: Value) -> bool:
    if isinstance(v, MultiValuedValue):
        for sub in v.vals:
            if isinstance(sub, MultiValuedValue):
                return True
            if isinstance(sub, AnnotatedValue) and isinstance(sub.value, MultiValuedValue):
                return True
    return False


def _canon(v: Value) -> Value:
    """Annotated[A | B, m] and Annotated[A, m] | Annotated[B, m] denote the same type but are different
    objects; unite_values distributes the annotation, so laws "up to equality" are stated on that
    canonical form for operands that are annotated unions."""
    if isinstance(v, AnnotatedValue) and isinstance(v.value, MultiValuedValue):
        return unite_values(v)
    return v


def _nodup(v: Value) -> bool:
    """equal alternatives are merged: no two members of a union compare equal"""
    if isinstance(v, MultiValuedValue):
        vals = list(v.vals)
        for i in range(len(vals)):
            for j in range(i + 1, len(vals)):
                try:
                    if vals[i] == vals[j]:
                        return False
                except Exception:
                    pass
        if len(vals) == 1:
            return False  # a one-member union is not collapsed
    return True


def _hash_ok(x: Value, y: Value) -> bool:
    """x == y implies hash(x) == hash(y) (both hashable)."""
    if x == y:
        try:
            return hash(x) == hash(y)
        except TypeError:
            return True
    return True


def _accepts(a: Value, b: Value) -> bool:
    return not isinstance(a.can_assign(b, get_checker()), CanAssignError)


def _in_range(v, lo, hi):
    return lo <= v <= hi


def _target(tsel, x):
    if tsel == 1:
        return KnownValue(x)
    if tsel == 2:
        return TypedValue(str)
    return TypedValue(int)


def _witness(osel, ow):
    if osel == 1:
        return "a"
    if osel == 2:
        return None
    return ow


def h14_pair(x: int, y: int, tsel: int, osel: int, ow: int) -> bool:
    """
    post: _
    """
    sa, sb = G.case["shapes"]
    lo, r = G.case["lo"], G.case["range"]
    if not _in_range(x, lo, r) or not _in_range(y, lo, r) or not _in_range(ow, -1, 2):
        return skip()
    a, b = mk(sa, x), mk(sb, y)
    ab, ba = unite_values(a, b), unite_values(b, a)
    feat_union_order = isinstance(ab, MultiValuedValue) and isinstance(ba, MultiValuedValue) and ab.vals != ba.vals and ab == ba
    # unhashable literals hash by id(): every ulit case is inside known finding C14-K1 (and id()-based
    # hashing does not replay deterministically under tracing)
    feat_unhashable = ("ulit" in (sa, sb))
    if excluded(x=x, y=y, tsel=tsel, osel=osel, ow=ow, feat_union_order=feat_union_order, feat_unhashable=feat_unhashable):
        return skip()
    never = NO_RETURN_VALUE
    # idempotent, commutative, Never identity, no nesting
    if not (unite_values(a, a) == _canon(a) and unite_values(b, b) == _canon(b)):
        return fin(False)
    if not (ab == ba):
        return fin(False)
    if not (unite_values(never, a) == _canon(a) and unite_values(a, never) == _canon(a)):
        return fin(False)
    # the two flattening sites agree: uniting equals building the union directly
    if sa != "never" and sb != "never" and not (ab == MultiValuedValue([a, b]) or ab == _canon(a) == _canon(b)):
        return fin(False)
    # no member is an Annotated wrapped in another Annotated (annotations are merged)
    for sub in (ab.vals if isinstance(ab, MultiValuedValue) else [ab]):
        if isinstance(sub, AnnotatedValue) and isinstance(sub.value, AnnotatedValue):
            return fin(False)
    if _nested(ab) or _nested(unite_values(ab, a)):
        return fin(False)
    if not (unite_values(ab, a) == ab and unite_values(ab, ba) == ab):
        return fin(False)
    # the union accepts each operand
    if not (_accepts(ab, a) and _accepts(ab, b)):
        return fin(False)
    # equal values hash equal
    for p, q in ((a, b), (ab, ba), (ab, a), (ab, b), (unite_values(a, a), a)):
        if not _hash_ok(p, q):
            return fin(False)
    # members of the union are exactly the members of the operands
    # (the witness dimensions and the type-variable map are explored separately, not as a product)
    if tsel == 0 and sa not in ("any", "tv", "utv", "gtv") and sb not in ("any", "tv", "utv", "gtv"):
        o = KnownValue(_witness(osel, ow))
        if _accepts(ab, o) != (_accepts(a, o) or _accepts(b, o)):
            return fin(False)
    # substitution
    if not (osel == 0 and ow == 0):
        return fin(True)
    m = {T: _target(tsel, x)}
    for shape, v in ((sa, a), (sb, b)):
        sv = v.substitute_typevars(m)
        if shape not in HAS_TV and not (sv == v or _canon(sv) == _canon(v)):
            return fin(False)
        for w in sv.walk_values():
            if isinstance(w, TypeVarValue) and w.typevar is T:
                return fin(False)
        if not _nodup(sv):
            return fin(False)
        # a substituted copy that is still equal to the original hashes like it and merges with it
        if not _hash_ok(sv, v) or not _nodup(unite_values(v, sv)):
            return fin(False)
    if not _nodup(ab) or not _nodup(ab.substitute_typevars(m)):
        return fin(False)
    if not (ab.substitute_typevars(m) == unite_values(a.substitute_typevars(m), b.substitute_typevars(m))):
        return fin(False)
    return fin(True)


def h14_triple(x: int, y: int, z: int, tsel: int) -> bool:
    """
    post: _
    """
    sa, sb, sc = G.case["shapes"]
    lo, r = G.case["lo"], G.case["range"]
    if not _in_range(x, lo, r) or not _in_range(y, lo, r) or not _in_range(z, lo, r):
        return skip()
    if excluded(x=x, y=y, z=z, tsel=tsel):
        return skip()
    a, b, c = mk(sa, x), mk(sb, y), mk(sc, z)
    left = unite_values(unite_values(a, b), c)
    right = unite_values(a, unite_values(b, c))
    flat = unite_values(a, b, c)
    if not (left == right and left == flat):
        return fin(False)
    if _nested(left) or _nested(right):
        return fin(False)
    m = {T: _target(tsel, x)}
    if not (flat.substitute_typevars(m) == unite_values(a.substitute_typevars(m), b.substitute_typevars(m), c.substitute_typevars(m))):
        return fin(False)
    x2 = flat.substitute_typevars(m)
    if not (unite_values(x2, x2) == x2 and unite_values(NO_RETURN_VALUE, x2) == x2):
        return fin(False)
    return fin(True)


def cases(tier: str, seed: int) -> List[Case]:
    out: List[Case] = []
    quick = tier == "quick"
    rng = 1
    lo = 0 if quick else -1
    pshapes = [s for s in SHAPES if s not in ("litf", "lits", "str", "dinc", "td")] if quick else SHAPES
    for sa, sb in itertools.product(pshapes, repeat=2):
        out.append(Case("h14_pair", f"pair:{sa},{sb}", {"shapes": [sa, sb], "range": rng, "lo": lo}, timeout=90 if quick else 600,
                        twin=(sa <= sb)))
    tshapes = ["lit", "int", "u2", "utv", "tv"] if quick else \
        ["lit", "litb", "litf", "int", "ann", "u2", "utv", "tv", "annu"]
    for idx, (sa, sb, sc) in enumerate(itertools.product(tshapes, repeat=3)):
        if (not quick) and (idx + seed) % 2 != 0:
            continue
        out.append(Case("h14_triple", f"triple:{sa},{sb},{sc}", {"shapes": [sa, sb, sc], "range": rng, "lo": lo},
                        timeout=90 if quick else 400, twin=(idx % 8 == 0)))
    return out
