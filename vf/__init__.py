"""Solver-based checking of quora/pyanalyze (see /verif/DESIGN.md)."""
