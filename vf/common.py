"""Shared pieces of the harnesses: pre-built Checker, marker classes, stub contexts, stub atoms
over a symbolic preorder, coarse-hash stub."""

from __future__ import annotations

from contextlib import contextmanager
from typing import Any, Dict, Iterable, List, Optional, Sequence, Tuple

from pyanalyze.checker import Checker
from pyanalyze.signature import CallContext
from pyanalyze.value import (
    AnnotatedValue,
    AnySource,
    AnyValue,
    CanAssignError,
    GenericValue,
    KnownValue,
    MultiValuedValue,
    SequenceValue,
    TypedValue,
    Value,
    flatten_values,
)

_CHK: Optional[Checker] = None


def get_checker() -> Checker:
    """Built once per worker process, outside tracing (Checker() consults typeshed_client)."""
    global _CHK
    if _CHK is None:
        _CHK = Checker()
    return _CHK


# ---------------------------------------------------------------------------------------
# marker element types: membership of a runtime element in an inferred value is exact
# ---------------------------------------------------------------------------------------


class T0:
    pass


class T1:
    pass


class T2:
    pass


class T3:
    pass


class T4:
    pass


class T5:
    pass


TS = [T0, T1, T2, T3, T4, T5]
ALL_TAGS = frozenset(range(len(TS)))


class NotATag(Exception):
    pass


def tags(v: Value) -> frozenset:
    """Set of marker indices an inferred value admits (Any admits all)."""
    out = set()
    for sub in flatten_values(v, unwrap_annotated=True):
        if isinstance(sub, AnyValue):
            return ALL_TAGS
        if type(sub) is TypedValue and sub.typ in TS:
            out.add(TS.index(sub.typ))
        elif type(sub) is TypedValue and sub.typ is object:
            return ALL_TAGS
        else:
            raise NotATag(repr(sub))
    return frozenset(out)


# ---------------------------------------------------------------------------------------
# stub visitor / call context for impl functions
# ---------------------------------------------------------------------------------------


class StubVisitor:
    """What an impl function needs from the visitor: the assignability context (the real
    Checker) and a sink for errors.  `_check_dunder_call` for `__index__` returns its operand
    (ints are their own index)."""

    in_union_decomposition = False

    def __init__(self):
        self.errors: List[Any] = []
        self._chk = get_checker()

    def __getattr__(self, name):
        return getattr(self._chk, name)

    def _check_dunder_call(self, node, composite, name, args, allow_call=False):
        return composite.value, None

    def show_error(self, *a, **k):
        self.errors.append((a, k))


class StubCallContext(CallContext):
    def show_error(self, message, *a, **k):
        self.visitor.errors.append(message)


def call_context(vars: Dict[str, Value], visitor: Optional[StubVisitor] = None) -> StubCallContext:
    vis = visitor or StubVisitor()
    return StubCallContext(
        vars=vars,
        visitor=vis,
        composites={},
        node=None,
        sig=None,
        inferred_return_value=AnyValue(AnySource.inference),
    )


# ---------------------------------------------------------------------------------------
# stub atoms over a symbolic preorder
# ---------------------------------------------------------------------------------------


class Rel:
    """Preorder on n atoms generated constructively from n*(n-1) booleans.

    Atom i owns a down-set D(i) that always contains i; `bits[i*(n-1)+k']` says whether the
    k'-th other atom is in D(i).  `le(j, i)` (i accepts j) iff D(j) is a subset of D(i).  Every
    assignment of the booleans is a preorder and every preorder arises (take D(i) = {j: j <= i}),
    so no path is spent on a failing precondition.
    """

    def __init__(self, n: int, bits: Sequence[bool]):
        self.n = n
        self.bits = bits
        self._memo: Dict[Tuple[int, int], Any] = {}

    def down(self, i: int, k: int):
        if i == k:
            return True
        kk = k if k < i else k - 1
        return self.bits[i * (self.n - 1) + kk]

    def accepts(self, i: int, j: int):
        """does atom i accept atom j (j <= i)?"""
        if i == j:
            return True
        key = (i, j)
        if key in self._memo:
            return self._memo[key]
        res = True
        for k in range(self.n):
            if self.down(j, k) and not self.down(i, k):
                res = False
                break
        self._memo[key] = res
        return res


def nbits(n: int) -> int:
    return n * (n - 1)


class Atom(Value):
    """Leaf type whose assignability is given by a symbolic preorder.  Everything else
    (unions, Any, Never, Annotated on the right) goes through the real Value.can_assign."""

    __slots__ = ("i", "rel")

    def __init__(self, i: int, rel: Rel):
        self.i = i
        self.rel = rel

    def __eq__(self, o):
        return isinstance(o, Atom) and o.i == self.i

    def __ne__(self, o):
        return not self.__eq__(o)

    def __hash__(self):
        return hash(("Atom", self.i))

    def __str__(self):
        return f"A{self.i}"

    __repr__ = __str__

    def can_assign(self, other, ctx):
        if isinstance(other, Atom):
            if self.rel.accepts(self.i, other.i):
                return {}
            return CanAssignError("atom rejected")
        return super().can_assign(other, ctx)

    def can_overlap(self, other, ctx, mode):
        # leaf classes that the preorder does not relate are disjoint (like int and str): no object is
        # an instance of both.  Related atoms overlap.
        if isinstance(other, Atom):
            if self.rel.accepts(self.i, other.i) or self.rel.accepts(other.i, self.i):
                return None
            return CanAssignError("disjoint atoms")
        return super().can_overlap(other, ctx, mode)

    def substitute_typevars(self, typevars):
        return self

    def walk_values(self):
        yield self


class TopAtom(Value):
    """Stands for `object`: accepts every atom."""

    def __eq__(self, o):
        return isinstance(o, TopAtom)

    def __hash__(self):
        return hash("TopAtom")

    def __str__(self):
        return "TOP"

    __repr__ = __str__

    def can_assign(self, other, ctx):
        if isinstance(other, (Atom, TopAtom)):
            return {}
        return super().can_assign(other, ctx)


def ref_accepts(rel: Rel, a: Value, b: Value):
    """Reference acceptance between atoms / unions of atoms / Never / Any / Annotated[atom]:
    written from the property text (a union is accepted exactly when each member is; a union
    accepts what one of its members accepts; Any both ways; Never accepted everywhere)."""
    def members(v):
        out = []
        for m in flatten_values(v, unwrap_annotated=True):
            # flatten_values unwraps only a top-level Annotated: unwrap union members too
            while isinstance(m, AnnotatedValue):
                m = m.value
            out.append(m)
        return out

    bs = members(b)
    as_ = members(a)
    for y in bs:
        if isinstance(y, AnyValue):
            continue
        ok = False
        for x in as_:
            if isinstance(x, AnyValue) or isinstance(x, TopAtom):
                ok = True
                break
            if isinstance(x, Atom) and isinstance(y, Atom) and rel.accepts(x.i, y.i):
                ok = True
                break
        if not ok:
            return False
    return True


# ---------------------------------------------------------------------------------------
# coarse hash stub (DESIGN.md section 2 item 4)
# ---------------------------------------------------------------------------------------

_COARSE = False


def install_coarse_hash():
    """Replace __hash__ of KnownValue and of the frozen annotated_types checks by a coarser hash
    that is still consistent with the unchanged __eq__ (equal objects have equal type/class),
    so dict/set de-duplication decides equality symbolically instead of realising payloads."""
    global _COARSE
    if _COARSE:
        return
    _COARSE = True
    from pyanalyze import annotated_types as at

    def kv_hash(self):
        return hash(("KV", type(self.val).__name__))

    KnownValue.__hash__ = kv_hash
    for name in ("Gt", "Ge", "Lt", "Le", "MinLen", "MaxLen", "MultipleOf"):
        cls = getattr(at, name, None)
        if cls is not None:
            cls.__hash__ = lambda self, _n=name: hash(("AT", _n))


class MiniVisitor:
    """Minimal visitor for Signature.check_call / OverloadedSignature.check_call: the error
    catching protocol of BaseNodeVisitor, everything else delegated to the real Checker."""

    def __init__(self):
        self.errors: List[Dict[str, Any]] = []
        self.caught_errors = None
        self._chk = get_checker()

    def __getattr__(self, name):
        return getattr(self._chk, name)

    @contextmanager
    def catch_errors(self):
        old = self.caught_errors
        caught: List[Dict[str, Any]] = []
        self.caught_errors = caught
        try:
            yield caught
        finally:
            self.caught_errors = old

    def show_caught_errors(self, errors):
        for e in errors:
            self.show_error(**e)

    def show_error(self, node=None, e=None, error_code=None, **kw):
        d = {"node": node, "e": e, "error_code": error_code}
        d.update(kw)
        if self.caught_errors is not None:
            self.caught_errors.append(d)
            return
        self.errors.append(d)
