"""./check <id> [--tier quick|thorough] [--replay FILE]"""

from __future__ import annotations

import argparse
import importlib
import json
import os
import sys
import time
from typing import Any, Dict, List

from vf import engine
from vf.engine import Case, VERIF

EXIT_OK, EXIT_VIOLATION, EXIT_HARNESS = 0, 1, 3


def _jsonable(x):
    try:
        json.dumps(x)
        return x
    except TypeError:
        return repr(x)


def write_evidence(prop, mod, outcome: engine.RunOutcome, extra: Dict[str, Any], violations: int):
    results = outcome.results
    conds = len(outcome.cases)
    discharged = [c for c in outcome.cases if results.get(c.label, {}).get("status") == "confirmed"]
    inconclusive = [
        c for c in outcome.cases
        if results.get(c.label, {}).get("status") in ("unknown", "hung", "crash")
    ]
    refuted = [c for c in outcome.cases if results.get(c.label, {}).get("status") == "refuted"]
    nontrivial = [c for c in discharged if outcome.twins.get(c.label, {}).get("status") == "refuted"]
    twins_refuted = [c for c in outcome.cases if outcome.twins.get(c.label, {}).get("status") == "refuted"]
    witness_ok = sum(1 for c in twins_refuted if outcome.twins[c.label].get("witness_ok"))
    paths = sum(int(r.get("paths", 0)) for r in results.values())
    confirmed_paths = sum(int(r.get("confirmed_paths", 0)) for r in results.values())
    z3q = sum(int(r.get("z3_queries", 0)) for r in list(results.values()) + list(outcome.twins.values()))
    z3s = sum(float(r.get("z3_s", 0)) for r in list(results.values()) + list(outcome.twins.values()))
    cpu = sum(float(r.get("cpu_s", 0)) for r in list(results.values()) + list(outcome.twins.values()))
    samples = []
    for c in (discharged[:3] + refuted[:3] + inconclusive[:2]):
        r = results[c.label]
        samples.append({
            "template": c.template, "case": c.label, "data": _jsonable(c.data),
            "verdict": r.get("status"), "paths": r.get("paths"),
            "confirmed_paths": r.get("confirmed_paths"), "cpu_s": r.get("cpu_s"),
            "z3_queries": r.get("z3_queries"),
            "counterexample": r.get("call"),
            "twin_witness": outcome.twins.get(c.label, {}).get("call"),
        })
    if not samples:
        samples.append({"note": "no E1 case in this run"})
    e2 = extra.get("e2") or {}
    cov = {
        "evaluations": conds + int(e2.get("queries", 0)),
        "distinct_nontrivial": len(nontrivial) + int(e2.get("discharged", 0)),
        "rule": ("one evaluation = one harness condition (a structural case with all data symbolic) handed to "
                 "CrossHair/z3, or one direct z3 query (E2); distinct = distinct case label; non-trivial = the "
                 "condition was discharged ('Confirmed over all paths') AND its reachability twin (same body, "
                 "assertion replaced by False on the paths that evaluate it) was refuted by the solver"),
        "samples": samples + list(e2.get("samples", []))[:4],
        "states": max(1, paths),
        "transitions": max(1, z3q + int(e2.get("queries", 0))),
        "traces_validated_against_impl": witness_ok + len(refuted) + int(extra.get("e3_validated", 0)),
        "exhaustive": False,
        "conditions": conds,
        "discharged": len(discharged),
        "inconclusive": len(inconclusive),
        "inconclusive_cases": [c.label for c in inconclusive][:50],
        "counterexamples": len(refuted),
        "known_findings_reproduced": len(outcome.known_lines) + len(extra.get("known_lines", [])),
        "twins_run": sum(1 for c in outcome.cases if c.twin),
        "twins_refuted": len(twins_refuted),
        "twin_witnesses_replayed_ok": witness_ok,
        "paths_explored": paths,
        "confirmed_paths": confirmed_paths,
        "engine_cpu_s": round(cpu, 1),
        "solver_queries": z3q + int(e2.get("queries", 0)),
        "solver_time_s": round(z3s + float(e2.get("time_s", 0.0)), 2),
        "workers": engine.NWORKERS,
        "functions_encoded": getattr(mod, "FUNCTIONS_ENCODED", []),
        "bounds": getattr(mod, "BOUNDS", {}).get(outcome.tier, getattr(mod, "BOUNDS", {})),
        "outside_claim": getattr(mod, "OUTSIDE", []),
        "stubs": getattr(mod, "STUBS", []),
        "templates": sorted({c.template for c in outcome.cases}),
        "harness_errors": outcome.harness_errors[:20],
        "explanation": ("bounded symbolic execution of the real pyanalyze functions (imported from /repo's working "
                        "tree in this run) with CrossHair 0.0.110; z3 5.1.0 decides the assertion per path for all "
                        "values of the symbolic inputs; structure is enumerated inside the stated bounds"),
    }
    if e2:
        cov["e2"] = {k: v for k, v in e2.items() if k != "samples"}
    if extra.get("e3"):
        cov["e3_oracle_validation"] = extra["e3"]
    ev = {
        "property_id": prop,
        "tier": outcome.tier,
        "seed": outcome.seed,
        "level": "model_checking",
        "coverage": cov,
        "assumptions": list(getattr(mod, "ASSUMPTIONS", [])) + [
            "CrossHair 0.0.110 models of int/bool/str/tuple/list/dict/isinstance/len/slicing and z3 5.1.0 are trusted",
            "'Confirmed over all paths' = path tree exhausted without realisation approximations; anything else is reported as inconclusive",
            "message formatting is stubbed (text of diagnostics is outside the claim)",
        ],
        "wall_s": round(outcome.wall_s + float(extra.get("wall_s", 0.0)), 2),
        "violations": violations,
    }
    os.makedirs(os.path.join(VERIF, "evidence"), exist_ok=True)
    path = os.path.join(VERIF, "evidence", f"{prop}.json")
    tmp = path + ".tmp"
    with open(tmp, "w") as f:
        json.dump(ev, f, indent=1, default=repr)
    os.replace(tmp, path)
    return path


def _dump_results(prop, outcome):
    """Raw per-condition results of the last run, for sizing the tiers (.work is git-ignored)."""
    d = os.path.join(VERIF, ".work")
    os.makedirs(d, exist_ok=True)
    tmpl = {c.label: c.template for c in outcome.cases}
    slim = lambda r, l: {"template": tmpl.get(l), **{k: v for k, v in r.items() if k in ("status", "cpu_s", "paths", "confirmed_paths", "z3_queries", "call", "detail")}}
    with open(os.path.join(d, f"{prop}.results.json"), "w") as f:
        json.dump({"results": {l: slim(r, l) for l, r in outcome.results.items()},
                   "twins": {l: slim(r, l) for l, r in outcome.twins.items()}}, f, indent=1, default=repr)


def do_replay(prop: str, mod, path: str) -> int:
    with open(path) as f:
        payload = json.load(f)
    if payload.get("engine") == "e2":
        return mod.replay_e2(payload)
    cases = {c.label: c for c in mod.cases("thorough", 0)}
    c = cases.get(payload["case"])
    if c is None:
        print(f"replay: case {payload['case']} is not generated by {prop} any more")
        return EXIT_HARNESS
    res: List[Dict[str, Any]] = []
    job = {"module": mod.__name__, "template": c.template, "data": c.data, "mode": "replay",
           "timeout": 120.0, "call": payload["call"], "job_id": 0}
    engine.Pool(mod.__name__, 1).run([job], lambda j, r: res.append(r))
    r = res[0]
    print(json.dumps(r, indent=1, default=repr))
    fails = r.get("ran") and (r.get("value") is False or r.get("raised"))
    if fails:
        print(f"VIOLATION property={prop} replay={path}")
        return EXIT_VIOLATION
    print("replay: the recorded input satisfies the obligation on the current tree")
    return EXIT_OK


def main(argv=None) -> int:
    ap = argparse.ArgumentParser()
    ap.add_argument("prop")
    ap.add_argument("--tier", default="quick", choices=["quick", "thorough"])
    ap.add_argument("--replay")
    ap.add_argument("--only", help="regex on case labels (debugging)")
    ap.add_argument("--no-twins", action="store_true")
    args = ap.parse_args(argv)
    prop = args.prop.upper()
    tier = os.environ.get("VERIF_TIER") or args.tier
    if tier not in ("quick", "thorough"):
        tier = args.tier
    try:
        seed = int(os.environ.get("VERIF_SEED", "0"))
    except ValueError:
        seed = 0
    mod = importlib.import_module(f"vf.props.{prop.lower()}")
    if args.replay:
        return do_replay(prop, mod, args.replay)

    t0 = time.time()
    import pyanalyze
    print(f"== {prop} tier={tier} seed={seed} workers={engine.NWORKERS} pyanalyze={os.path.dirname(pyanalyze.__file__)} (working tree)")
    extra: Dict[str, Any] = {}
    pre = getattr(mod, "pre_run", None)
    if pre is not None:
        # E2 queries / E3 oracle validation owned by the property module
        extra = pre(tier, seed) or {}
    cases: List[Case] = mod.cases(tier, seed)
    if args.only:
        import re
        cases = [c for c in cases if re.search(args.only, c.label)]
    if args.no_twins:
        for c in cases:
            c.twin = False
    elif os.environ.get("VERIF_SPARSE_TWINS") != "1":
        # every case gets its reachability twin (the property modules mark a sample only; a twin stops at
        # the first path that evaluates an obligation, so the cost is a few percent)
        for c in cases:
            c.twin = True
    all_cases = mod.cases("thorough", 0) if engine.load_known(prop) else None
    outcome = engine.run_cases(prop, mod.__name__, cases, tier, seed, all_cases_for_witness=all_cases)
    outcome.wall_s = time.time() - t0 - float(extra.get("wall_s", 0.0))
    _dump_results(prop, outcome)

    rc = EXIT_OK
    vio_lines = []
    for v in outcome.violations:
        path = engine.save_replay(prop, mod.__name__, v["case"], v["result"])
        vio_lines.append(f"VIOLATION property={prop} replay={path}")
        r = v["result"]
        print(f"  counterexample {v['case'].template}:{v['case'].label}: {r.get('ce_message')}")
        if r.get("public"):
            print(f"    public route: {json.dumps(r['public'], default=repr)[:600]}")
    for v in extra.get("violations", []):
        vio_lines.append(f"VIOLATION property={prop} replay={v}")
    nviol = len(vio_lines)
    herr = outcome.harness_errors + list(extra.get("harness_errors", []))
    ev = write_evidence(prop, mod, outcome, extra, nviol)
    for line in outcome.known_lines + list(extra.get("known_lines", [])):
        print(line)
    st = {}
    for r in outcome.results.values():
        st[r.get("status")] = st.get(r.get("status"), 0) + 1
    print(f"== {prop}: conditions={len(cases)} verdicts={st} twins_refuted="
          f"{sum(1 for t in outcome.twins.values() if t.get('status') == 'refuted')}/{sum(1 for c in cases if c.twin)} "
          f"e2={ {k: v for k, v in (extra.get('e2') or {}).items() if k != 'samples'} } wall={time.time() - t0:.1f}s evidence={ev}")
    if herr:
        for h in herr[:30]:
            print(f"HARNESS-ERROR: {h}"[:600])
        rc = EXIT_HARNESS
    if vio_lines:
        for l in vio_lines:
            print(l)
        rc = EXIT_VIOLATION
    return rc


if __name__ == "__main__":
    try:
        rc = main()
    except SystemExit:
        raise
    except BaseException as e:  # noqa  - an uncaught Python error must never look like exit code 1 (violation)
        import traceback

        traceback.print_exc()
        print(f"HARNESS-ERROR: the check itself failed: {type(e).__name__}: {e}")
        rc = EXIT_HARNESS
    sys.exit(rc)
