"""Debug helper: per-template statistics of the last run (reads .work/<id>.results.json)."""
import json, sys, collections
d = json.load(open(sys.argv[1]))
agg = collections.defaultdict(lambda: collections.Counter())
for lab, r in d["results"].items():
    t = r["template"]
    agg[t]["n"] += 1
    agg[t][r["status"]] += 1
    agg[t]["cpu"] += r.get("cpu_s", 0)
    agg[t]["paths"] += r.get("paths", 0)
for lab, r in d["twins"].items():
    t = "twin:" + r["template"]
    agg[t]["n"] += 1
    agg[t]["cpu"] += r.get("cpu_s", 0)
for t, c in agg.items():
    print(t, dict(c))
slow = sorted(d["results"].items(), key=lambda kv: -kv[1].get("cpu_s", 0))[:15]
for lab, r in slow:
    print(lab, r["status"], r.get("cpu_s"), r.get("paths"))
