"""E2: translate a Python `re` pattern (as parsed by re._parser from the live module) to a z3
regular expression.  Unknown constructs raise NotImplementedError -> harness error, never a pass."""

from __future__ import annotations

import subprocess
import tempfile
import time
from re import _parser as sp
from typing import Any, Dict, List, Optional, Tuple

import z3

STR = z3.StringSort()
ANY = z3.AllChar(z3.ReSort(STR))


def charset(chars: str):
    rs = [z3.Re(c) for c in chars]
    return z3.Union(*rs) if len(rs) > 1 else rs[0]


def not_chars(chars: str):
    return z3.Intersect(ANY, z3.Complement(charset(chars)))


def tr(seq):
    parts = [tr1(op, av) for op, av in seq]
    if not parts:
        return z3.Re("")
    return z3.Concat(*parts) if len(parts) > 1 else parts[0]


# categories met while translating (other than \d); they are translated for ASCII subjects only, so the caller
# must restrict its string variables to ASCII when this set is not empty (see ascii_only)
USED_CATEGORIES = set()


def ascii_only(s):
    return z3.InRe(s, z3.Star(z3.Range(chr(0), chr(127))))


def category(av):
    word = z3.Union(z3.Range("a", "z"), z3.Range("A", "Z"), z3.Range("0", "9"), z3.Re("_"))
    space = charset(" \t\n\r\x0b\x0c")
    digit = z3.Range("0", "9")
    if av is sp.CATEGORY_DIGIT:
        return digit
    USED_CATEGORIES.add(str(av))
    if av is sp.CATEGORY_NOT_DIGIT:
        return z3.Intersect(ANY, z3.Complement(digit))
    if av is sp.CATEGORY_WORD:
        return word
    if av is sp.CATEGORY_NOT_WORD:
        return z3.Intersect(ANY, z3.Complement(word))
    if av is sp.CATEGORY_SPACE:
        return space
    if av is sp.CATEGORY_NOT_SPACE:
        return z3.Intersect(ANY, z3.Complement(space))
    raise NotImplementedError(f"regex category {av}")


def tr_in(items):
    neg = False
    alts = []
    for op, av in items:
        if op is sp.NEGATE:
            neg = True
        elif op is sp.LITERAL:
            alts.append(z3.Re(chr(av)))
        elif op is sp.RANGE:
            alts.append(z3.Range(chr(av[0]), chr(av[1])))
        elif op is sp.CATEGORY:
            alts.append(category(av))
        else:
            raise NotImplementedError(f"regex set item {op}")
    r = z3.Union(*alts) if len(alts) > 1 else alts[0]
    if neg:
        r = z3.Intersect(ANY, z3.Complement(r))
    return r


def tr1(op, av):
    if op is sp.LITERAL:
        return z3.Re(chr(av))
    if op is sp.NOT_LITERAL:
        return z3.Intersect(ANY, z3.Complement(z3.Re(chr(av))))
    if op is sp.IN:
        return tr_in(av)
    if op is sp.ANY:
        return ANY
    if op is sp.SUBPATTERN:
        return tr(av[3])
    if op is sp.BRANCH:
        alts = [tr(b) for b in av[1]]
        return z3.Union(*alts) if len(alts) > 1 else alts[0]
    if op in (sp.MAX_REPEAT, sp.MIN_REPEAT):
        lo, hi, sub = av
        r = tr(sub)
        if lo == 0 and hi == 1:
            return z3.Option(r)
        if lo == 0 and hi == sp.MAXREPEAT:
            return z3.Star(r)
        if lo == 1 and hi == sp.MAXREPEAT:
            return z3.Plus(r)
        return z3.Loop(r, lo, hi)
    raise NotImplementedError(f"regex node {op}")


class Q:
    """Query runner: z3 5.x python API decides; every query is also dumped as SMT-LIB2 and
    cross-checked once with /usr/bin/z3 4.8.12 when `cross` is set ((error lines = inconclusive)."""

    def __init__(self, timeout_ms: int = 120000, cross: bool = False):
        self.timeout_ms = timeout_ms
        self.cross = cross
        self.queries = 0
        self.time_s = 0.0
        self.log: List[Dict[str, Any]] = []

    def check(self, name: str, constraints, model_vars=()) -> Tuple[str, Dict[str, str]]:
        sol = z3.Solver()
        sol.set("timeout", self.timeout_ms)
        for c in constraints:
            sol.add(c)
        t0 = time.time()
        r = str(sol.check())
        dt = time.time() - t0
        self.queries += 1
        self.time_s += dt
        model = {}
        if r == "sat":
            m = sol.model()
            for v in model_vars:
                val = m.eval(v, model_completion=True)
                model[str(v)] = val.as_string() if hasattr(val, "as_string") else str(val)
        entry = {"name": name, "result": r, "time_s": round(dt, 3), "model": model}
        if self.cross:
            entry["cross_z3_4_8"] = self._cross(sol)
        self.log.append(entry)
        return r, model

    def _cross(self, sol) -> str:
        try:
            with tempfile.NamedTemporaryFile("w", suffix=".smt2", dir="/verif/.work", delete=True) as f:
                f.write(sol.to_smt2())
                f.flush()
                p = subprocess.run(["/usr/bin/z3", f"-T:{max(10, self.timeout_ms // 1000)}", f.name],
                                   capture_output=True, text=True, timeout=self.timeout_ms / 1000 + 30)
            out = p.stdout.strip()
            if "(error" in out:
                return "inconclusive(error)"
            return out.splitlines()[0] if out else "no-output"
        except Exception as e:  # noqa
            return f"unavailable({type(e).__name__})"


def unescape_z3(s: str) -> str:
    """z3 prints non-printable characters as \\u{..}."""
    import re as _re

    return _re.sub(r"\\u\{([0-9a-fA-F]+)\}", lambda m: chr(int(m.group(1), 16)), s)
