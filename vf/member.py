"""Shared vocabulary of static type expressions, their pyanalyze Values, runtime objects and the
structural membership model `member(o, T)` (written from the statements of C03 / C04; promotion
int -> float -> complex, bool-is-int, structural containers).

A type expression is a nested tuple; payload slots ("p", i) / flag slots ("f", i) are filled by
`instantiate` with the harness' symbolic inputs, so one structural case covers every literal /
threshold / flag value.
"""

from __future__ import annotations

import collections.abc
import enum
import itertools
import typing
from typing import Any, List, Optional, Tuple

from pyanalyze import annotated_types as pat
from pyanalyze.value import (
    AnnotatedValue,
    CustomCheckExtension,
    GenericValue,
    KnownValue,
    MultiValuedValue,
    SequenceValue,
    SubclassValue,
    TypedDictEntry,
    TypedDictValue,
    TypedValue,
    Value,
)

from vf.engine import Case


class A:
    pass


class B(A):
    pass


class Color(enum.Enum):
    RED = 1
    BLUE = 2


class Perm(enum.Flag):
    """a Flag enum: its instances are not only the named members (R | W and Perm(0) exist)"""

    R = 1
    W = 2


class FSub(float):
    """a user-defined float subclass (numeric promotion must reach it: float subclass -> complex)"""


class ISub(int):
    """a user-defined int subclass"""


CLASSES = {"A": A, "B": B}
SCALARS = {"int": int, "bool": bool, "float": float, "complex": complex, "str": str, "bytes": bytes, "object": object}


class _NoObject:
    pass


NO_OBJECT = _NoObject()

# ----------------------------------------------------------------------------------------
# type expressions
# ----------------------------------------------------------------------------------------

P0, P1 = ("p", 0), ("p", 1)
F0, F1 = ("f", 0), ("f", 1)


def instantiate(t, payloads, flags):
    """Replace ("p", i) / ("f", i) slots by the given (symbolic) values."""
    if isinstance(t, tuple):
        if len(t) == 2 and t[0] == "p" and isinstance(t[1], int):
            return payloads[t[1]]
        if len(t) == 2 and t[0] == "f" and isinstance(t[1], int):
            return flags[t[1]]
        return tuple(instantiate(x, payloads, flags) for x in t)
    if isinstance(t, list):
        return [instantiate(x, payloads, flags) for x in t]
    return t


def to_value(t) -> Value:
    k = t[0]
    if k in SCALARS:
        return TypedValue(SCALARS[k])
    if k == "none":
        return KnownValue(None)
    if k == "lit":
        return KnownValue(t[1])
    if k == "lit_enum":
        return KnownValue(Color.RED)
    if k == "enum":
        return TypedValue(Color)
    if k == "flag":
        return TypedValue(Perm)
    if k == "typeobj":
        return TypedValue(type)
    if k == "baretuple":  # the bare alias typing.Tuple (any tuple), not Tuple[()]
        return TypedValue(tuple)
    if k == "tdc":  # closed TypedDict {a: T}: no other key allowed (only used by pinned C04 pairs; no typing spelling)
        from pyanalyze.value import NO_RETURN_VALUE

        return TypedDictValue({"a": TypedDictEntry(to_value(t[1]))}, extra_keys=NO_RETURN_VALUE)
    if k == "tdc2":  # closed TypedDict {a: T1, b: T2}
        from pyanalyze.value import NO_RETURN_VALUE

        return TypedDictValue({"a": TypedDictEntry(to_value(t[1])), "b": TypedDictEntry(to_value(t[2]))}, extra_keys=NO_RETURN_VALUE)
    if k == "cls":
        return TypedValue(CLASSES[t[1]])
    if k == "type":
        return SubclassValue(TypedValue(CLASSES[t[1]]))
    if k in ("gt", "ge", "lt", "le", "mult"):
        chk = {"gt": pat.Gt, "ge": pat.Ge, "lt": pat.Lt, "le": pat.Le, "mult": pat.MultipleOf}[k](t[1])
        return AnnotatedValue(TypedValue(int), [CustomCheckExtension(chk)])
    if k == "minlen":
        return AnnotatedValue(to_value(t[2]), [CustomCheckExtension(pat.MinLen(t[1]))])
    if k == "maxlen":
        return AnnotatedValue(to_value(t[2]), [CustomCheckExtension(pat.MaxLen(t[1]))])
    if k == "union":
        return MultiValuedValue([to_value(x) for x in t[1:]])
    if k == "list":
        return GenericValue(list, [to_value(t[1])])
    if k == "set":
        return GenericValue(set, [to_value(t[1])])
    if k == "frozenset":
        return GenericValue(frozenset, [to_value(t[1])])
    if k == "dict":
        return GenericValue(dict, [to_value(t[1]), to_value(t[2])])
    if k == "mapping":
        return GenericValue(collections.abc.Mapping, [to_value(t[1]), to_value(t[2])])
    if k == "tuple":
        return SequenceValue(tuple, [(False, to_value(x)) for x in t[1:]])
    if k == "vtuple":
        return GenericValue(tuple, [to_value(t[1])])
    if k == "pvtuple":  # tuple[X, *tuple[Y, ...]]
        return SequenceValue(tuple, [(False, to_value(t[1])), (True, to_value(t[2]))])
    if k == "seq":
        return GenericValue(collections.abc.Sequence, [to_value(t[1])])
    if k == "iter":
        return GenericValue(collections.abc.Iterable, [to_value(t[1])])
    if k == "td":
        # ("td", required_flag, readonly_flag, value type): TypedDict with the single key "a"
        return TypedDictValue({"a": TypedDictEntry(to_value(t[3]), required=bool_(t[1]), readonly=bool_(t[2]))})
    if k == "td2":
        return TypedDictValue({"a": TypedDictEntry(to_value(t[1])), "b": TypedDictEntry(to_value(t[2]), required=bool_(t[3]))})
    raise AssertionError(t)


def bool_(x):
    return True if x else False


def to_typing(t):
    """The typing-module spelling of a (fully concrete) type expression, for E3."""
    import annotated_types as at
    from typing_extensions import Annotated, Literal, NotRequired, ReadOnly, Required, TypedDict, Unpack

    k = t[0]
    if k in SCALARS:
        return SCALARS[k]
    if k == "none":
        return None
    if k == "lit":
        return Literal[t[1]]
    if k == "lit_enum":
        return Literal[Color.RED]
    if k == "enum":
        return Color
    if k == "flag":
        return Perm
    if k == "typeobj":
        return type
    if k == "baretuple":
        from typing import Tuple as _BareTuple

        return _BareTuple
    if k == "cls":
        return CLASSES[t[1]]
    if k == "type":
        return typing.Type[CLASSES[t[1]]]
    if k in ("gt", "ge", "lt", "le", "mult"):
        chk = {"gt": at.Gt, "ge": at.Ge, "lt": at.Lt, "le": at.Le, "mult": at.MultipleOf}[k](t[1])
        return Annotated[int, chk]
    if k == "minlen":
        return Annotated[to_typing(t[2]), at.MinLen(t[1])]
    if k == "maxlen":
        return Annotated[to_typing(t[2]), at.MaxLen(t[1])]
    if k == "union":
        return typing.Union[tuple(to_typing(x) for x in t[1:])]
    if k == "list":
        return typing.List[to_typing(t[1])]
    if k == "set":
        return typing.Set[to_typing(t[1])]
    if k == "frozenset":
        return typing.FrozenSet[to_typing(t[1])]
    if k == "dict":
        return typing.Dict[to_typing(t[1]), to_typing(t[2])]
    if k == "mapping":
        return typing.Mapping[to_typing(t[1]), to_typing(t[2])]
    if k == "tuple":
        return typing.Tuple[tuple(to_typing(x) for x in t[1:])]
    if k == "vtuple":
        return typing.Tuple[to_typing(t[1]), ...]
    if k == "pvtuple":
        return typing.Tuple[to_typing(t[1]), Unpack[typing.Tuple[to_typing(t[2]), ...]]]
    if k == "seq":
        return typing.Sequence[to_typing(t[1])]
    if k == "iter":
        return typing.Iterable[to_typing(t[1])]
    if k == "td":
        inner = to_typing(t[3])
        if t[2]:
            inner = ReadOnly[inner]
        inner = Required[inner] if t[1] else NotRequired[inner]
        return TypedDict("TD", {"a": inner})
    if k == "td2":
        return TypedDict("TD2", {"a": to_typing(t[1]), "b": (Required if t[3] else NotRequired)[to_typing(t[2])]})
    raise AssertionError(t)


# ----------------------------------------------------------------------------------------
# membership model
# ----------------------------------------------------------------------------------------


def member(o, t) -> bool:
    k = t[0]
    if k == "object":
        return True
    if k == "int":
        return isinstance(o, int)
    if k == "bool":
        return isinstance(o, bool)
    if k == "float":
        return isinstance(o, (float, int))
    if k == "complex":
        return isinstance(o, (complex, float, int))
    if k == "str":
        return isinstance(o, str)
    if k == "bytes":
        return isinstance(o, bytes)
    if k == "none":
        return o is None
    if k == "lit":
        v = t[1]
        return type(o) is type(v) and o == v
    if k == "lit_enum":
        return o is Color.RED
    if k == "enum":
        return isinstance(o, Color)
    if k == "flag":
        return isinstance(o, Perm)
    if k == "typeobj":
        return isinstance(o, type)
    if k == "baretuple":
        return isinstance(o, tuple)
    if k == "tdc":
        return isinstance(o, dict) and set(o) == {"a"} and member(o["a"], t[1])
    if k == "tdc2":
        return isinstance(o, dict) and set(o) == {"a", "b"} and member(o["a"], t[1]) and member(o["b"], t[2])
    if k == "cls":
        return isinstance(o, CLASSES[t[1]])
    if k == "type":
        return isinstance(o, type) and issubclass(o, CLASSES[t[1]])
    if k == "gt":
        return isinstance(o, int) and o > t[1]
    if k == "ge":
        return isinstance(o, int) and o >= t[1]
    if k == "lt":
        return isinstance(o, int) and o < t[1]
    if k == "le":
        return isinstance(o, int) and o <= t[1]
    if k == "mult":
        return isinstance(o, int) and o % t[1] == 0
    if k == "minlen":
        return member(o, t[2]) and len(o) >= t[1]
    if k == "maxlen":
        return member(o, t[2]) and len(o) <= t[1]
    if k == "union":
        for x in t[1:]:
            if member(o, x):
                return True
        return False
    if k in ("list", "set", "frozenset"):
        typ = {"list": list, "set": set, "frozenset": frozenset}[k]
        if not isinstance(o, typ):
            return False
        for e in o:
            if not member(e, t[1]):
                return False
        return True
    if k in ("dict", "mapping"):
        if not isinstance(o, dict):
            return False
        for kk, vv in o.items():
            if not member(kk, t[1]) or not member(vv, t[2]):
                return False
        return True
    if k == "tuple":
        if not isinstance(o, tuple) or len(o) != len(t) - 1:
            return False
        for e, x in zip(o, t[1:]):
            if not member(e, x):
                return False
        return True
    if k == "vtuple":
        if not isinstance(o, tuple):
            return False
        for e in o:
            if not member(e, t[1]):
                return False
        return True
    if k == "pvtuple":
        if not isinstance(o, tuple) or len(o) < 1 or not member(o[0], t[1]):
            return False
        for e in o[1:]:
            if not member(e, t[2]):
                return False
        return True
    if k in ("seq", "iter"):
        if isinstance(o, (list, tuple)) or (k == "iter" and isinstance(o, (set, frozenset, dict))):
            for e in o:
                if not member(e, t[1]):
                    return False
            return True
        if isinstance(o, str):
            # a str is (nominally) a Sequence[str] whatever its length: it belongs to Sequence[T]
            # iff T admits every 1-character str
            return _admits_str(t[1])
        if isinstance(o, bytes):
            # bytes is (nominally) a Sequence[int] whatever its length
            return _admits_int(t[1])
        return False
    if k == "td":
        # TypedDicts are open (PEP 589 structural typing): extra keys do not matter - but every key is a str
        if not isinstance(o, dict):
            return False
        for key in o:
            if not isinstance(key, str):
                return False
        if "a" in o:
            return member(o["a"], t[3])
        return not t[1]
    if k == "td2":
        if not isinstance(o, dict):
            return False
        for key in o:
            if not isinstance(key, str):
                return False
        if "a" not in o or not member(o["a"], t[1]):
            return False
        if "b" in o:
            return member(o["b"], t[2])
        return not t[3]
    raise AssertionError(t)


def _admits_int(t) -> bool:
    k = t[0]
    if k in ("int", "float", "complex", "object"):
        return True
    if k == "union":
        for x in t[1:]:
            if _admits_int(x):
                return True
    return False


def _admits_str(t) -> bool:
    k = t[0]
    if k in ("str", "object"):
        return True
    if k == "union":
        for x in t[1:]:
            if _admits_str(x):
                return True
    return False


# ----------------------------------------------------------------------------------------
# objects
# ----------------------------------------------------------------------------------------

OBJECT_KINDS = ["int", "bool", "str", "none", "float", "tuple0", "tuple1", "tuple2", "tuple_is", "list0", "list1", "list2",
                "dict0", "dict_a", "dict_ab", "dict_an", "dict_a2", "set1", "fset1", "bytes0", "bytes1", "enum", "instA", "instB", "clsA", "clsB", "clsint",
                "fsub", "isub", "cplx", "flagR", "flagRW", "flag0", "clsstr", "dict_as"]


def make_object(kind: str, oi, oj, s):
    if kind == "int":
        return oi
    if kind == "bool":
        return oi > 0
    if kind == "str":
        return s
    if kind == "none":
        return None
    if kind == "float":
        return 1.5
    if kind == "tuple0":
        return ()
    if kind == "tuple1":
        return (oi,)
    if kind == "tuple2":
        return (oi, oj)
    if kind == "tuple_is":
        return (oi, s)
    if kind == "list0":
        return []
    if kind == "list1":
        return [oi]
    if kind == "list2":
        return [oi, oj]
    if kind == "dict0":
        return {}
    if kind == "dict_a":
        return {"a": oi}
    if kind == "dict_ab":
        return {"a": oi, "b": oj}
    if kind == "dict_as":
        return {"a": oi, "b": s}
    if kind == "dict_a2":  # a non-str key next to the declared one
        return {"a": oi, 2: oj}
    if kind == "dict_an":
        return {"a": None, "b": oi}
    if kind == "set1":
        # the element is 0 or 1 (decided by the sign of oi): a real set needs a concrete, hashable element
        return {0} if oi <= 0 else {1}
    if kind == "fset1":
        return frozenset({0}) if oi <= 0 else frozenset({1})
    if kind == "bytes0":
        return b""
    if kind == "bytes1":
        return b"a"
    if kind == "enum":
        return Color.RED
    if kind == "instA":
        return _INST_A
    if kind == "instB":
        return _INST_B
    if kind == "clsA":
        return A
    if kind == "clsB":
        return B
    if kind == "clsint":
        return int
    if kind == "clsstr":
        return str
    if kind == "flagR":
        return Perm.R
    if kind == "flagRW":
        return _FLAG_RW
    if kind == "flag0":
        return _FLAG_0
    if kind == "fsub":
        return _FSUB
    if kind == "isub":
        return _ISUB
    if kind == "cplx":
        return 1j
    raise AssertionError(kind)


_INST_A = A()
_INST_B = B()
_FLAG_RW = Perm.R | Perm.W
_FLAG_0 = Perm(0)
_FSUB = FSub(2.5)
_ISUB = ISub(7)

# ----------------------------------------------------------------------------------------
# vocabulary
# ----------------------------------------------------------------------------------------

LEAVES = [
    ("int",), ("bool",), ("float",), ("complex",), ("str",), ("bytes",), ("object",), ("none",),
    ("lit", P0), ("lit", "a"), ("lit", True), ("lit_enum",), ("enum",), ("cls", "A"), ("cls", "B"), ("type", "A"), ("type", "B"),
    ("gt", P0), ("ge", P0), ("lt", P0), ("le", P0), ("baretuple",), ("flag",), ("typeobj",),
]
LEAVES_B = [  # the same leaves with the second payload slot (right-hand side of a pair)
    tuple(P1 if x == P0 else x for x in t) for t in LEAVES
]


def depth1(leaves, p, f) -> List[Any]:
    out = list(leaves)
    core = [("int",), ("bool",), ("str",), ("float",), ("none",), ("lit", p), ("cls", "A"), ("gt", p), ("object",)]
    for t in core:
        out.append(("union", t, ("none",)))
        out.append(("list", t))
        out.append(("vtuple", t))
        out.append(("seq", t))
    for t in [("int",), ("bool",), ("str",), ("lit", p)]:
        out.append(("set", t))
        out.append(("frozenset", t))
        out.append(("dict", ("str",), t))
        out.append(("mapping", ("str",), t))
        out.append(("iter", t))
        out.append(("tuple", t, ("str",)))
        out.append(("tuple", ("int",), t))
        out.append(("pvtuple", ("int",), t))
        out.append(("td", f, False, t))
        out.append(("union", t, ("str",)))
        out.append(("union", ("lit", p), t))
    out.append(("tuple",))
    out.append(("tuple", ("int",)))
    out.append(("td", f, True, ("int",)))
    out.append(("td", f, False, ("union", ("int",), ("none",))))
    out.append(("td2", ("union", ("int",), ("none",)), ("int",), f))
    out.append(("td2", ("int",), ("str",), f))
    out.append(("minlen", p, ("vtuple", ("int",))))
    out.append(("maxlen", p, ("vtuple", ("int",))))
    out.append(("minlen", p, ("str",)))
    # Annotated wrappers around structural types (assignability must look through the wrapper before it compares
    # members / keys, not fall back to the erased generic)
    out.append(("minlen", p, ("tuple", ("int",), ("int",))))
    out.append(("minlen", p, ("tuple", ("int",), ("str",))))
    out.append(("minlen", p, ("td", f, False, ("int",))))
    out.append(("minlen", p, ("list", ("int",))))
    out.append(("minlen", p, ("dict", ("str",), ("int",))))
    out.append(("mult", 3))
    out.append(("union", ("gt", p), ("lit", 0)))
    # dedupe, keep order
    seen = set()
    res = []
    for t in out:
        if t[0] == "union" and len(t) == 3 and t[1] == t[2]:
            continue  # typing collapses Union[X, X]
        key = repr(t)
        if key not in seen:
            seen.add(key)
            res.append(t)
    return res


def tname(t) -> str:
    if isinstance(t, tuple):
        if len(t) == 2 and t[0] in ("p", "f") and isinstance(t[1], int):
            return f"${t[0]}{t[1]}"
        if len(t) == 1:
            return str(t[0])
        return t[0] + "[" + ",".join(tname(x) for x in t[1:]) + "]"
    return repr(t)


def kinds_for(t) -> List[str]:
    """object kinds worth pairing with a type (everything for small types; containers get containers + scalars)"""
    return OBJECT_KINDS


def warm(data):
    """Run the acceptance checks once on concrete payloads outside tracing (fills checker caches)."""
    from vf.common import get_checker

    ctx = get_checker()
    for key in ("A", "B", "T"):
        if key in data:
            for p in (0, 1):
                t = instantiate(data[key], (p, p + 1), (True, False))
                v = to_value(t)
                v.can_assign(v, ctx)
                for kind in ([data["okind"]] if "okind" in data else []):
                    o = make_object(kind, p, 2, "a")
                    v.can_assign(KnownValue(o), ctx)
    if "A" in data and "B" in data:
        for p in (0, 1):
            a = to_value(instantiate(data["A"], (p, 1), (True, False)))
            b = to_value(instantiate(data["B"], (1, p), (False, True)))
            a.can_assign(b, ctx)


# relevance filter: object kinds that can be members of a type's outer shape (others are still
# checked once per type through the scalar kinds)


def c03_cases(tier: str, seed: int) -> List[Case]:
    out = []
    quick = tier == "quick"
    types = depth1(LEAVES, P0, F0)
    idx = 0
    for t in types:
        for kind in OBJECT_KINDS:
            idx += 1
            out.append(Case("h03", f"m:{tname(t)}|{kind}", {"T": t, "okind": kind}, timeout=60 if quick else 240,
                            twin=(idx % 7 == 0)))
    if not quick:
        # depth 2: containers of depth-1 unions / containers
        inner = [("union", ("int",), ("none",)), ("list", ("int",)), ("vtuple", ("lit", P0)), ("tuple", ("int",), ("str",)),
                 ("union", ("lit", P0), ("str",)), ("td", F0, False, ("int",))]
        for t2 in inner:
            for outer in ("list", "vtuple", "seq", "optional", "dictv", "tuple2"):
                t = {"list": ("list", t2), "vtuple": ("vtuple", t2), "seq": ("seq", t2), "optional": ("union", t2, ("none",)),
                     "dictv": ("dict", ("str",), t2), "tuple2": ("tuple", t2, ("int",))}[outer]
                for kind in OBJECT_KINDS:
                    idx += 1
                    if (idx + seed) % 2 != 0:
                        continue
                    out.append(Case("h03", f"m:{tname(t)}|{kind}", {"T": t, "okind": kind}, timeout=240, twin=(idx % 7 == 0)))
    return out


def _compatible_kinds(tb) -> List[str]:
    """object kinds that can possibly be members of tb (others make the obligation vacuous)"""
    k = tb[0]
    if k in ("int", "gt", "ge", "lt", "le", "mult"):
        return ["int", "bool", "isub"]
    if k == "bool":
        return ["bool"]
    if k == "float":
        return ["int", "bool", "float", "fsub", "isub"]
    if k == "complex":
        return ["int", "bool", "float", "fsub", "cplx"]
    if k == "str":
        return ["str"]
    if k == "none":
        return ["none"]
    if k == "lit":
        v = tb[1]
        if v == "a":
            return ["str"]
        if v is True:
            return ["bool"]
        return ["int"]
    if k in ("lit_enum", "enum"):
        return ["enum"]
    if k == "flag":
        return ["flagR", "flagRW", "flag0"]
    if k == "typeobj":
        return ["clsstr", "clsA", "clsint"]
    if k == "cls":
        return ["instA", "instB"] if tb[1] == "A" else ["instB"]
    if k == "type":
        return ["clsA", "clsB"] if tb[1] == "A" else ["clsB"]
    if k == "object":
        return ["int", "str", "none", "tuple1", "instA"]
    if k == "bytes":
        return ["bytes0", "bytes1"]
    if k == "union":
        res = []
        for x in tb[1:]:
            for kk in _compatible_kinds(x):
                if kk not in res:
                    res.append(kk)
        return res
    if k in ("list",):
        return ["list0", "list1", "list2"]
    if k == "set":
        return ["set1"]
    if k == "frozenset":
        return ["fset1"]
    if k in ("dict", "mapping"):
        return ["dict0", "dict_a", "dict_ab", "dict_an", "dict_a2"]
    if k in ("tuple", "vtuple", "pvtuple", "baretuple"):
        return ["tuple0", "tuple1", "tuple2", "tuple_is"]
    if k == "seq":
        return ["list0", "list1", "tuple1", "tuple2", "str", "bytes1"]
    if k == "iter":
        return ["list0", "list1", "tuple1", "tuple2", "str", "bytes1", "set1", "fset1", "dict_a"]
    if k in ("td", "td2"):
        return ["dict0", "dict_a", "dict_ab", "dict_an", "dict_a2"]
    if k in ("tdc", "tdc2"):
        return ["dict_a", "dict_ab", "dict_as"]
    if k in ("minlen", "maxlen"):
        return _compatible_kinds(tb[2])
    return OBJECT_KINDS


def core_kind(t) -> str:
    """outer constructor, looking through Annotated length checks"""
    if t[0] in ("minlen", "maxlen"):
        return core_kind(t[2])
    return t[0]


def _leniency(a, b) -> bool:
    """documented leniencies excluded by the property: a fixed-length (or prefixed) tuple accepting a
    variadic tuple of compatible element type; the bare `Tuple` alias (= tuple[Any, ...]) accepted by tuple-like generics"""
    if core_kind(b) == "baretuple" and core_kind(a) in ("tuple", "pvtuple", "vtuple", "seq", "iter"):
        return True  # a bare generic on the right-hand side means G[Any] (documented leniency)
    return core_kind(a) in ("tuple", "pvtuple") and core_kind(b) == "vtuple"


# pairs every run includes (witnesses of known findings, seeds the checks were strengthened for)
PINNED_PAIRS = {
    ("td[$f0,True,int]", "dict[str,int]"),
    ("td[$f0,True,int]", "td[$f1,False,int]"),
    ("td[$f0,False,int]", "td[$f1,True,int]"),
    ("td[$f0,False,int]", "td[$f1,False,int]"),
    ("tuple[int,str]", "tuple[int,str]"),
    ("union[int,none]", "int"),
    ("int", "union[int,none]"),
    ("float", "int"),
    ("int", "bool"),
    ("gt[$p0]", "gt[$p1]"),
    ("ge[$p0]", "gt[$p1]"),
    ("list[int]", "list[bool]"),
    ("seq[int]", "list[bool]"),
    ("vtuple[int]", "tuple[int,str]"),
    ("mapping[str,lit[$p0]]", "td[$f1,False,lit[$p1]]"),
    ("dict[str,int]", "td[$f1,False,int]"),
    ("mapping[str,int]", "td2[int,str,$f1]"),
    ("tuple[int,str]", "minlen[$p1,tuple[int,int]]"),
    ("tuple[int,str]", "minlen[$p1,tuple[int,str]]"),
    ("tuple[int,int]", "minlen[$p1,tuple[int,str]]"),
    ("tuple[int]", "minlen[$p1,tuple[int,int]]"),
    ("td2[int,str,$f0]", "minlen[$p1,td[$f1,False,int]]"),
    ("td[$f0,True,int]", "minlen[$p1,td[$f1,False,int]]"),
    ("list[int]", "minlen[$p1,list[int]]"),
    ("list[bool]", "minlen[$p1,list[int]]"),
}


def c04_cases(tier: str, seed: int) -> List[Case]:
    out = []
    quick = tier == "quick"
    ta = depth1(LEAVES, P0, F0)
    tb = depth1(LEAVES_B, P1, F1)
    idx = 0
    for a in ta:
        for b in tb:
            kinds = _compatible_kinds(b)
            if not kinds or _leniency(a, b):
                continue
            idx += 1
            pinned = (tname(a), tname(b)) in PINNED_PAIRS
            if quick and (idx + seed) % 12 != 0 and not pinned:
                continue
            if (not quick) and (idx + seed) % 2 != 0 and not pinned:
                continue
            for kind in kinds:
                out.append(Case("h04_sound", f"s:{tname(a)}<-{tname(b)}|{kind}", {"A": a, "B": b, "okind": kind},
                                timeout=60 if quick else 240, twin=True, vacuous_ok=True))
    # closed TypedDicts (no typing spelling in the vocabulary: these pairs are listed by hand)
    closed = [("tdc", ("int",)), ("tdc2", ("int",), ("str",)), ("tdc2", ("int",), ("int",)), ("td", F1, False, ("int",)), ("td2", ("int",), ("str",), F1)]
    for a in closed[:3]:
        for b in closed:
            for kind in _compatible_kinds(b):
                out.append(Case("h04_sound", f"s:{tname(a)}<-{tname(b)}|{kind}", {"A": a, "B": b, "okind": kind},
                                timeout=60 if quick else 240, twin=True, vacuous_ok=True))
    return out
