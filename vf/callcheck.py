"""Shared harness for C06 / C15: the real `preprocess_args` -> `Signature.check_call_preprocessed` ->
`check_call_with_bound_args` -> `_check_param_type_compatibility` (both passes), `unify_bounds_maps`,
`typevar.resolve_bounds_map` / `solve` / `remove_redundant_solutions`, `TypeVarValue.can_assign /
can_be_assigned`, `CallableValue.can_assign` -> `Signature.can_assign` (source of upper bounds),
`substitute_typevars`, run on signatures whose leaf types are stub atoms under a symbolic preorder.
"""

from __future__ import annotations

import itertools
from typing import Any, Dict, List, Optional, Tuple, TypeVar

from pyanalyze.signature import (
    ParameterKind,
    Signature,
    SigParameter,
    _CanAssignBasedContext,
    preprocess_args,
)
from pyanalyze.stacked_scopes import Composite
from pyanalyze.value import (
    AnySource,
    AnyValue,
    CallableValue,
    GenericValue,
    KnownValue,
    MultiValuedValue,
    TypeVarValue,
    Value,
    flatten_values,
)

from vf.common import Atom, Rel, get_checker, ref_accepts

T = TypeVar("T")
U = TypeVar("U")
K = ParameterKind
TVU = TypeVarValue(U)


class Box:
    """stand-in generic container class (its generic-ness lives in GenericValue(Box, [X]))"""


def ann_value(ann, atoms, tv) -> Value:
    k = ann[0]
    if k == "atom":
        return atoms[ann[1]]
    if k == "union":
        return MultiValuedValue([atoms[ann[1]], atoms[ann[2]]])
    if k == "T":
        return tv
    if k == "boxT":
        return GenericValue(list, [tv])
    if k == "cbT":  # Callable[[T], None]
        return CallableValue(Signature.make([SigParameter("x", K.POSITIONAL_ONLY, annotation=tv)], KnownValue(None)))
    if k == "retT":  # Callable[[], T]
        return CallableValue(Signature.make([], tv))
    if k == "U":
        return TVU
    if k == "cbTU":  # Callable[[T], U]
        return CallableValue(Signature.make([SigParameter("x", K.POSITIONAL_ONLY, annotation=tv)], TVU))
    if k == "dictTU":  # dict[T, U]
        return GenericValue(dict, [tv, TVU])
    raise AssertionError(ann)


def arg_value(ann, arg, atoms) -> Value:
    """argument passed for a parameter of annotation kind `ann`; `arg` is an atom index, ('u', i, j) or 'any'"""
    def base(a):
        if a == "any":
            return AnyValue(AnySource.explicit)
        if isinstance(a, (tuple, list)) and a[0] == "u":
            return MultiValuedValue([atoms[a[1]], atoms[a[2]]])
        if a == "none":
            return KnownValue(None)
        return atoms[a]
    k = ann[0]
    if k in ("atom", "union", "T"):
        return base(arg)
    if k == "boxT":
        return GenericValue(list, [base(arg)])
    if k == "cbT":
        return CallableValue(Signature.make([SigParameter("x", K.POSITIONAL_ONLY, annotation=base(arg))], KnownValue(None)))
    if k == "retT":
        return CallableValue(Signature.make([], base(arg)))
    if k == "U":
        return base(arg)
    if k == "cbTU":  # arg = (param atom, return atom)
        return CallableValue(Signature.make([SigParameter("x", K.POSITIONAL_ONLY, annotation=base(arg[0]))], base(arg[1])))
    if k == "dictTU":  # arg = (key atom, value atom)
        return GenericValue(dict, [base(arg[0]), base(arg[1])])
    raise AssertionError(ann)


def make_tv(tvspec, atoms) -> TypeVarValue:
    k = tvspec[0]
    if k == "plain":
        return TypeVarValue(T)
    if k == "bound":
        return TypeVarValue(T, bound=atoms[tvspec[1]])
    if k == "constr":
        return TypeVarValue(T, constraints=(atoms[tvspec[1]], atoms[tvspec[2]]))
    raise AssertionError(tvspec)


def run_call(params: List[Tuple[str, Any, Any]], ret_ann, tvspec, args, atoms, order=None):
    """params: [(name, ann, default-or-None)], args: per parameter an arg spec or OMIT.
    Returns (diagnosed, return value, errors)."""
    tv = make_tv(tvspec, atoms)
    idxs = list(range(len(params))) if order is None else list(order)
    sp = []
    for i in idxs:
        nm, ann, dflt = params[i]
        sp.append(SigParameter(nm, K.POSITIONAL_OR_KEYWORD, annotation=ann_value(ann, atoms, tv),
                               default=dflt))
    sig = Signature.make(sp, ann_value(ret_ann, atoms, tv) if ret_ann is not None else KnownValue(None))
    call_args = []
    for i in idxs:
        nm, ann, dflt = params[i]
        a = args[i]
        if a == "omit":
            continue
        if a == "dflt":
            # the argument expression evaluates to the very Value object stored as the parameter's default
            # (`name = "a"; def f(x: int = name): ...; f(name)`): still an explicitly passed argument
            call_args.append((Composite(dflt), nm))
            continue
        call_args.append((Composite(arg_value(ann, a, atoms)), nm))
    ctx = _CanAssignBasedContext(get_checker())
    actual = preprocess_args(call_args, ctx)
    if actual is None:
        return True, None, ctx.errors
    ret = sig.check_call_preprocessed(actual, ctx)
    return bool(ctx.errors) or ret.is_error, ret.return_value, ctx.errors


def candidates(atoms) -> List[Value]:
    """every atom and every union of atoms"""
    out: List[Value] = []
    n = len(atoms)
    for r in range(1, n + 1):
        for comb in itertools.combinations(range(n), r):
            if len(comb) == 1:
                out.append(atoms[comb[0]])
            else:
                out.append(MultiValuedValue([atoms[i] for i in comb]))
    return out


def bounds_of(params, args, atoms):
    """reference bounds on T derived from the call: (lower bounds, upper bounds) as Values"""
    lows, ups = [], []
    for (nm, ann, dflt), a in zip(params, args):
        if a == "omit" or a == "any":
            continue
        v = arg_value(("T",), a, atoms)
        if ann[0] in ("T", "boxT", "retT"):
            lows.append(v)
        elif ann[0] == "cbT":
            ups.append(v)
    return lows, ups


def bounds_of2(params, args, atoms):
    """reference bounds for the two-variable signatures: {var: (lower bounds, upper bounds)}"""
    out = {"T": ([], []), "U": ([], [])}
    for (nm, ann, dflt), a in zip(params, args):
        k = ann[0]
        if k == "T":
            out["T"][0].append(atoms[a])
        elif k == "U":
            out["U"][0].append(atoms[a])
        elif k == "cbTU":
            out["T"][1].append(atoms[a[0]])
            out["U"][0].append(atoms[a[1]])
        elif k == "dictTU":
            out["T"][0].append(atoms[a[0]])
            out["U"][0].append(atoms[a[1]])
    return out
